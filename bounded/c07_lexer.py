"""Native cross-check / replay search for C07: Lark.lex (basic lexer) against a reference lexer written from the documented rules
(priority, maximal width, pattern length, name; keyword-vs-identifier exception), and contextual vs basic parsing. argv: tier seed"""
import itertools, json, re, sys
from lark import Lark
from lark.lexer import PatternStr, PatternRE
from lark.exceptions import UnexpectedInput

tier = sys.argv[1] if len(sys.argv) > 1 else 'quick'
fails = []
evals = distinct = 0


def note(key, inp, obs, req):
    if not any(f['key'] == key for f in fails):
        fails.append({'key': key, 'input': inp, 'observed': obs, 'required': req})


def ref_lex(terminals, ignore, text, gflags, use_bytes):
    # maximal width computed here from the regexp the terminal really compiles to (flags included), not taken from lark
    try:
        import re._parser as _sp
    except ImportError:
        import sre_parse as _sp
    def maxw(t):
        return min(int(_sp.parse(t.pattern.to_regexp(), gflags).getwidth()[1]), 2 ** 31)
    order = sorted(terminals, key=lambda t: (-t.priority, -maxw(t), -len(t.pattern.value), t.name))
    def rx(t):
        r = t.pattern.to_regexp()
        return re.compile(r.encode('latin-1') if use_bytes else r, gflags)
    comp = [(t, rx(t)) for t in order]
    pos, out = 0, []
    while pos < len(text):
        hit = None
        for t, c in comp:
            m = c.match(text, pos)
            if m and m.end() > pos:
                hit = (t, m.group(0)); break
        if hit is None:
            return out, ('UnexpectedCharacters', pos)
        t, val = hit
        if isinstance(t.pattern, PatternRE):
            # text matched by a regexp terminal which is exactly a same-priority string terminal is that string terminal
            for s, c in comp:
                if isinstance(s.pattern, PatternStr) and s.priority == t.priority:
                    sv = s.pattern.value.encode('latin-1') if use_bytes else s.pattern.value
                    tm = re.match(rx(t), sv)
                    if tm and tm.group(0) == sv and c.fullmatch(val):
                        t = s; break
        if t.name not in ignore:
            out.append((t.name, val))
        pos += len(val)
    return out, None

GRAMMARS = [
    ('start: (IF|NAME|INT)*\nIF: "if"\nNAME: /[a-z]+/\nINT: /[0-9]+/\n%ignore " "', 'if 1', 0),
    ('start: (A|AB|B)*\nA: "a"\nAB: "ab"\nB: /b+/', 'ab', 0),
    ('start: (X|Y|Z)*\nX.2: /a/\nY: /a+/\nZ: /b|ab/', 'ab', 0),
    ('start: (ALPHA|BETA|W)*\nALPHA: "SEL"\nBETA: "sel"i\nW: /[a-z]+/\n%ignore " "', 'SELsel ', 0),
    ('start: (BEGIN|NAME)*\nBEGIN: "BEGIN"\nNAME: /[a-z]+/\n%ignore " "', 'BEGINbegin ', re.I),
    ('start: (KW|ID|OP)*\nKW: "in" | "is"\nID: /[a-z_]+/\nOP: "==" | "="\n%ignore /\\s+/', 'in is_=', 0),
    # a token retyped by keyword detection is ignored / kept according to the type it ends up with
    ('start: NAME+\nNAME: /[a-z]+/\n%ignore "x"\n%ignore " "', 'abx ', 0),
    ('start: (IF|NUM)+\nIF: "if"\nNUM: /[0-9]+/\nCOMMENT: /[a-z]+/\n%ignore COMMENT\n%ignore " "', 'if1a ', 0),
    # a verbose-flag terminal: blanks and comments in its source are not part of what it matches (width 2, not 5)
    ('start: (AB|ABC|C)*\nAB: / a b /x\nABC: /abc/\nC: "c"', 'abc', 0),
    ('start: (D|DT)*\nD: / [0-9] - [0-9]   # date\n /x\nDT: /[0-9]-[0-9]T[0-9]/', '1-T', 0),
]
L = 3 if tier == 'quick' else 5
for g, alpha, gflags in GRAMMARS:
    for use_bytes in (False, True):
        p = Lark(g, parser='lalr', lexer='basic', g_regex_flags=gflags, use_bytes=use_bytes)
        units = sorted(set(alpha) | {alpha[i:i + 2] for i in range(len(alpha) - 1)} | ({alpha[:5]} if len(alpha) >= 5 else set()))
        for n in range(0, L + 1):
            for combo in itertools.product(units, repeat=n) if n <= 3 else itertools.islice(itertools.product(units, repeat=n), 0, 4000):
                s = ''.join(combo)
                if len(s) > 2 * L: continue
                text = s.encode('ascii') if use_bytes else s
                evals += 1; distinct += 1
                exp, err = ref_lex(p.terminals, set(p.ignore_tokens), text, gflags, use_bytes)
                try:
                    got = [(t.type, t.value) for t in p.lex(text)]; gerr = None
                except UnexpectedInput as e:
                    got, gerr = None, (type(e).__name__, e.pos_in_stream)
                if (err is None and got != exp) or (err is not None and gerr != err):
                    note('lex', {'grammar': g, 'text': repr(text), 'g_regex_flags': int(gflags)}, got if gerr is None else gerr, exp if err is None else err)
            if fails: break
        if fails: break
    if fails: break
# more than 100 terminals in one scanner
if not fails:
    kws = '\n'.join('OP%d: "op%d"' % (i, i) for i in range(120))
    g = 'start: (%s|NAME|INT)*\n%s\nNAME: /[a-z]+/\nINT: /[0-9]+/\n%%ignore " "' % ('|'.join('OP%d' % i for i in range(120)), kws)
    p = Lark(g, parser='lalr', lexer='basic')
    for text in ['op95', 'op5 op119 x9', 'opx op1op2', 'op120']:
        evals += 1; distinct += 1
        exp, err = ref_lex(p.terminals, set(p.ignore_tokens), text, 0, False)
        try:
            got = [(t.type, t.value) for t in p.lex(text)]
        except UnexpectedInput as e:
            got = type(e).__name__
        if err is None and got != exp:
            note('many-terminals', {'terminals': 122, 'text': text}, got, exp)
# contextual refines basic: whenever basic parses, contextual parses to the same tree (regexp terminals here do not overlap)
if not fails:
    for g, alpha, gflags in GRAMMARS[:1] + GRAMMARS[4:]:
        pb = Lark(g, parser='lalr', lexer='basic', g_regex_flags=gflags)
        pc = Lark(g, parser='lalr', lexer='contextual', g_regex_flags=gflags)
        for n in range(0, 4):
            for combo in itertools.product(sorted(set(alpha)), repeat=n):
                s = ''.join(combo)
                evals += 1
                try: tb = pb.parse(s)
                except UnexpectedInput: continue
                try: tc = pc.parse(s)
                except UnexpectedInput as e: tc = type(e).__name__
                if tc != tb:
                    note('contextual-refines-basic', {'grammar': g, 'text': s}, str(tc), str(tb))
res = {'fails': bool(fails), 'evaluations': evals, 'distinct': distinct, 'failures': fails}
if fails: res.update(input=fails[0]['input'], observed=fails[0]['observed'], required=fails[0]['required'])
print(json.dumps(res, default=str))
