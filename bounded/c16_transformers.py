"""Bounded stand-in / replay search for C16: the four transformer variants against the recursive definition on all small tree shapes,
and an embedded transformer against transforming afterwards. argv: tier seed"""
import copy, itertools, json, sys
from lark import Lark, Tree, Token, Transformer, Discard, v_args
from lark.visitors import Transformer_NonRecursive, Transformer_InPlace, Transformer_InPlaceRecursive

tier = sys.argv[1] if len(sys.argv) > 1 else 'quick'
fails = []
evals = distinct = 0


def note(key, inp, obs, req):
    if not any(f['key'] == key for f in fails):
        fails.append({'key': key, 'input': inp, 'observed': obs, 'required': req})


def shapes(n):
    """all ordered trees with n internal nodes; leaves are tokens; labels cycle through a, b, c, d"""
    if n == 0:
        return
    def build(k):
        # forests with k nodes in total
        if k == 0:
            yield []
            return
        for first in range(1, k + 1):
            for t in tree(first):
                for rest in build(k - first):
                    yield [t] + rest
    def tree(k):
        for kids in build(k - 1):
            yield kids
    for t in tree(n):
        yield t


def materialise(shape, counter):
    labels = 'abcd'
    i = next(counter)
    kids = [materialise(k, counter) for k in shape]
    if i % 2 == 0:
        kids.append(Token('T', 't%d' % i))
    return Tree(labels[i % 4], kids)


def ref_transform(t, log):
    """children first, each callback once per node; tokens through T; Discard dropped; None is a legitimate result"""
    def go(x):
        if isinstance(x, Tree):
            kids = [r for r in (go(c) for c in x.children) if r is not Discard]
            return user(str(x.data), kids, log)
        if isinstance(x, Token):
            log.append(('T', str(x))); return 'tok:' + str(x)
        return x
    r = go(t)
    return None if r is Discard else r


def user(name, kids, log):
    log.append((name, tuple(map(repr, kids))))
    if name == 'a': return ('A', tuple(map(repr, kids)))
    if name == 'b': return None
    if name == 'c': return Discard
    return Tree(name, kids)            # 'd': no callback -> default rebuilds the node


def make(base):
    class R(base):
        def __init__(self):
            base.__init__(self)
            self.log = []
        def a(self, kids): self.log.append(('a', tuple(map(repr, kids)))); return ('A', tuple(map(repr, kids)))
        def b(self, kids): self.log.append(('b', tuple(map(repr, kids)))); return None
        def c(self, kids): self.log.append(('c', tuple(map(repr, kids)))); return Discard
        def T(self, tok): self.log.append(('T', str(tok))); return 'tok:' + str(tok)
    return R

N = 6 if tier == 'quick' else 8
# hand-made trees first: a discarded node whose parent has earlier siblings, discarded roots, discarded tokens' neighbours
HAND = [Tree('a', [Token('T', 'x'), Tree('b', [Tree('c', [])])]), Tree('a', [Tree('a', [Token('T', 'y')]), Tree('d', [Tree('c', []), Tree('c', [Token('T', 'z')])]), Token('T', 'w')]),
        Tree('c', []), Tree('d', [Tree('c', [])]), Tree('a', [Tree('b', [Tree('c', []), Tree('d', [])]), Tree('a', [Tree('c', [])])])]
for n in range(0, N + 1):
    for shape in (shapes(n) if n else HAND):
        t = materialise(shape, itertools.count()) if n else shape
        log0 = []
        exp = ref_transform(copy.deepcopy(t), log0)
        exp_log = [e for e in log0 if e[0] != 'd']
        for base in (Transformer, Transformer_NonRecursive, Transformer_InPlace, Transformer_InPlaceRecursive):
            evals += 1; distinct += 1
            tr = make(base)()
            try:
                got = tr.transform(copy.deepcopy(t))
            except Exception as e:
                got = 'raised %r' % (e,)
            if repr(got) != repr(exp):
                note('variants-agree', {'tree': repr(t), 'variant': base.__name__}, repr(got), repr(exp))
            elif sorted(tr.log) != sorted(exp_log) or [e for e in tr.log if e[0] != 'T'] != [e for e in exp_log if e[0] != 'T'] and base in (Transformer, Transformer_InPlaceRecursive):
                note('callbacks-once-children-first', {'tree': repr(t), 'variant': base.__name__}, tr.log, exp_log)
    if fails: break

# embedded vs post-hoc
class Calc(Transformer):
    def add(self, c): return ('add',) + tuple(c)
    def num(self, c): return int(c[0])
    def neg(self, c): return None
    def NUM(self, t): return t.update(value=t + '0')
    def _ASSIGN(self, t): return 'assign'

class Shared(Transformer):
    @v_args(tree=True)
    def binop(self, tree): return (str(tree.data),) + tuple(map(str, tree.children))
    add = sub = binop

class InPl(Transformer_InPlace):
    def null(self, c): return None
    def num(self, c): return int(c[0])

class Pos(Transformer):
    # terminal callbacks that read the token's own coordinates: every occurrence must be transformed on its own
    def NAME(self, t): return (str(t), t.line, t.column, t.start_pos, t.end_pos)
    def NUM(self, t): return (int(t), t.start_pos)
    def item(self, c): return tuple(c)

class Partial(Transformer):
    # defines the rule name but NOT the alias of one of its alternatives (and vice versa): a node is handled by the callback of ITS OWN name only
    def item(self, c): return ('item',) + tuple(map(str, c))
    def neg(self, c): return ('neg',) + tuple(map(str, c))

SC = [
    ('start: item+\nitem: NAME | NAME "=" NUM -> assign\nNAME: /[a-z]+/\nNUM: /[0-9]+/\n%ignore " "', Partial, ['a', 'a=1', 'a b=2 c']),
    ('start: expr\n?expr: NUM | "-" NUM -> neg | expr "+" NUM -> item\nNUM: /[0-9]+/\n%ignore " "', Partial, ['1', '-1', '1+2', '-1+2']),
    ('start: item+\nitem: NAME ":" NUM | NAME\nNAME: /[a-z]+/\nNUM: /[0-9]+/\n%ignore /[ ,\\n]+/', Pos, ['a:1, b, a:1, a', 'x\nx x\nx:2 x:2', 'q']),
    ('start: expr\n?expr: num | expr "+" num -> add | "-" num -> neg\nnum: NUM\nNUM: /[0-9]+/\n%ignore " "', Calc, ['1', '1+2', '1+2+3', '-4']),
    ('!start: NAME _ASSIGN NAME\n_ASSIGN: "="\nNAME: /[a-z]+/', Calc, ['a=b']),
    ('start: x\n?x: NUM "+" NUM -> add | NUM "-" NUM -> sub\nNUM: /[0-9]/', Shared, ['1+2', '3-1']),
    ('start: (null | num)*\nnull: "null"\nnum: NUM\nNUM: /[0-9]/\n%ignore " "', InPl, ['1 null 3', 'null']),
]
if not fails:
    for g, T, inputs in SC:
        for text in inputs:
            evals += 1; distinct += 1
            try:
                emb = Lark(g, parser='lalr', transformer=T()).parse(text)
            except Exception as e:
                emb = 'raised %r' % (e,)
            try:
                post = T().transform(Lark(g, parser='lalr').parse(text))
            except Exception as e:
                post = 'raised %r' % (e,)
            if repr(emb) != repr(post):
                note('embedded-equals-posthoc' + ('-inplace' if T is InPl else ''), {'grammar': g, 'text': text, 'transformer': T.__name__}, repr(emb), repr(post))
res = {'fails': bool(fails), 'evaluations': evals, 'distinct': distinct, 'failures': fails, 'exhaustive': True}
if fails: res.update(input=fails[0]['input'], observed=fails[0]['observed'], required=fails[0]['required'])
print(json.dumps(res, default=str))
