"""Bounded stand-in / replay search for C14: Lark.scan against brute-force leftmost-longest substring parsing. argv: tier seed"""
import itertools, json, sys
from lark import Lark, Tree, Token
from lark.exceptions import UnexpectedInput

tier = sys.argv[1] if len(sys.argv) > 1 else 'quick'
fails = []
evals = distinct = 0


def note(key, inp, obs, req):
    if not any(f['key'] == key for f in fails):
        fails.append({'key': key, 'input': inp, 'observed': obs, 'required': req})


def norm(t):
    if isinstance(t, Tree): return (str(t.data), [norm(c) for c in t.children])
    if isinstance(t, Token): return (str(t.type), str(t), t.start_pos, t.end_pos, t.line, t.column)
    return repr(t)


def shift(n, d, text, s):
    """expected token coordinates: those of the full text"""
    if isinstance(n, tuple) and len(n) == 6:
        sp, ep = n[2] + s, n[3] + s
        line = 1 + text.count('\n', 0, sp)
        col = sp - (text.rfind('\n', 0, sp) + 1) + 1
        return (n[0], n[1], sp, ep, line, col)
    if isinstance(n, tuple): return (n[0], [shift(c, d, text, s) for c in n[1]])
    return n


def reference(p, text, ignore_chars):
    out, pos = [], 0
    n = len(text)
    while pos < n:
        found = None
        for s in range(pos, n):
            if text[s] in ignore_chars: continue          # a match never starts inside ignored text
            best = None
            for e in range(s + 1, n + 1):
                if text[e - 1] in ignore_chars: continue  # ... nor ends inside it
                try:
                    best = (e, p.parse(text[s:e]))
                except UnexpectedInput:
                    pass
            if best:
                found = (s,) + best; break
        if not found: break
        out.append(((found[0], found[1]), shift(norm(found[2]), 0, text, found[0])))
        pos = found[1]
    return out

import re
GRAMMARS = [
    ('start: "(" NAME ")"\nNAME: /[a-z]+/\n%ignore " "', '(a) \n', ' ', 0, None),
    ('start: expr+\nexpr: "(" expr* ")"', '()', '', 0, 9),          # nesting needs longer texts
    ('start: KW NAME\nKW: "do"\nNAME: /[x-z]/\n%ignore " "', 'dDoO x', ' ', re.I, None),    # a start terminal that matches only through g_regex_flags
    ('start: A B+\nA: "a"\nB: "b"\n%ignore /[ \\n]+/', 'ab \n', ' \n', 0, None),
    ('start: NUM ("+" NUM)*\nNUM: /[0-9]/', '1+x', '', 0, None),
    # a first token of several characters: after a failed attempt the next start is tried at the very next offset, also inside that token
    ('start: NUM UNIT\nNUM: /[0-9](\\.[0-9])?/\nUNIT: "p"', '1.p', '', 0, 6),
    ('start: STR ":" STR\nSTR: /"[^"]*"/\n%ignore " "', '"a: ', ' ', 0, 6),
    # keywords folded into an IGNORED regexp terminal: they are still terminals a match can start with
    # (basic lexer only: under the contextual lexer "b"/"e" are ignored text wherever the parser does not expect the keyword, and the
    #  reference's character-set notion of 'ends inside ignored text' does not apply)
    ('start: "b" NUM "e"\nNUM: /[0-9]/\n%ignore /[bex]/', 'be1x', 'x', 0, None, ('basic',)),
]
L = 5 if tier == 'quick' else 7
for g, alpha, ign, gflags, ownL, *only_lexers in GRAMMARS:
    for lexer in (only_lexers[0] if only_lexers else ('basic', 'contextual')):
        p = Lark(g, parser='lalr', lexer=lexer, propagate_positions=True, g_regex_flags=gflags)
        for n in range(0, (ownL or L) + 1):
            for chars in itertools.product(sorted(set(alpha)), repeat=n):
                text = ''.join(chars)
                evals += 1; distinct += 1
                exp = reference(p, text, ign)
                try:
                    got = [(tuple(m.range), norm(m.value)) for m in p.scan(text)]
                except Exception as e:
                    got = 'raised %r' % (e,)
                if got != exp:
                    key = 'scan'
                    if isinstance(got, list) and [r for r, _ in got] == [r for r, _ in exp]: key = 'scan-values'
                    note(key, {'grammar': g, 'lexer': lexer, 'text': text}, got, exp)
            if fails: break
        if fails: break
    if fails: break
# the recorded deviation: token-level scanning with maximal munch (basic lexer)
p = Lark('start: "if" NAME\nNAME: /[a-z]+/\n%ignore " "', parser='lalr', lexer='basic')
evals += 1
got = [tuple(m.range) for m in p.scan('if if')]
if got != [(0, 5)]:
    note('scan-maximal-munch', {'grammar': 'start: "if" NAME', 'lexer': 'basic', 'text': 'if if'}, got, [(0, 5)])
res = {'fails': bool(fails), 'evaluations': evals, 'distinct': distinct, 'failures': fails, 'exhaustive': True}
if fails: res.update(input=fails[0]['input'], observed=fails[0]['observed'], required=fails[0]['required'])
print(json.dumps(res, default=str))
