"""Bounded stand-in for the parts of C06 outside the deductive kernels:
  (A) which terminals get newline counting: a family of regex spellings that can match a newline, end to end through Lark.lex / parse
      (oracle: the coordinates of the following token computed from the text);
  (B) the dynamic Earley lexers' token coordinates for str and bytes (oracle: coordinates computed from the text; end coordinate in the
      dynamic family's convention: one past the last character on that character's line);
  (C) propagate_positions: meta spans against the tokens of a keep_all_tokens parse of the same text, children ordered / disjoint / nested,
      and container widening through nested inlined (?rule) nodes.
argv: tier seed"""
import itertools, json, re, sys
from lark import Lark, Token, Tree

tier = sys.argv[1] if len(sys.argv) > 1 else 'quick'
fails = []
evals = distinct = 0


def note(key, inp, obs, req):
    if not any(f['key'] == key for f in fails):
        fails.append({'key': key, 'input': inp, 'observed': obs, 'required': req})


def coords(text, pos, nl):
    line = 1 + text.count(nl, 0, pos)
    lsp = text.rfind(nl, 0, pos) + 1
    return line, pos - lsp + 1


# ---------------------------------------------------------------- (A) newline-bearing terminals, whatever construct matches the newline
ATOMS = [r'\n', r'\s', r'[^a]', r'\W', r'\D', r'\x0a', r'\012', r'[\t-\r]', r'[\x00-\x20]', r'[\s]', r'[^\S]', r'[\W]', r'[\D1]', r'[^\w]',
         r'(?s:.)', r'[\n]', r'[\x0a]', r'\x0A', r'[\d\n]', r'(\n)', r'(?:\n|c)', r'[^\n]', r'.', r'\S', r'\w', r'[b-d]', r'\t', r'[^\s]']
UATOMS = [r'\u000a', r'\N{LINE FEED}', r'[\u0000-\u0020]']          # str patterns only
CONTEXTS = ['b%s', '(b%s)+', 'b(%s|c)', 'b%s?c?', 'b%s{1,2}']
FLAGS = ['', 's', 'i', 'x']
if tier == 'quick':
    CONTEXTS, FLAGS = CONTEXTS[:3], FLAGS[:2]
PROBE = ['\n', ' ', 'c', '1', '\t', '.', '\n\n', 'c\n', '\nc', ' \n']
for atom, ctx, flags in itertools.product(ATOMS + UATOMS, CONTEXTS, FLAGS):
    rx = ctx % atom
    for use_bytes in (False, True):
        if use_bytes and atom in UATOMS:
            continue
        try:
            cre = re.compile(('(?%s:%s)' % (flags, rx)) if flags else rx)
        except re.error:
            continue
        g = 'start: (T|A)*\nT: /%s/%s\nA: "a"\n' % (rx, flags)
        try:
            lark = Lark(g, parser='lalr', lexer='basic', use_bytes=use_bytes)
        except Exception:
            continue
        for probe in PROBE:
            s = 'b' + probe
            if not cre.fullmatch(s) or '\n' not in s:
                continue
            text = s + 'a' + s + 'a'
            data = text.encode('latin-1') if use_bytes else text
            nl = b'\n' if use_bytes else '\n'
            evals += 1; distinct += 1
            try:
                toks = list(lark.lex(data))
            except Exception as e:
                continue          # a different tokenisation is not this clause's business
            for t in toks:
                exp = coords(data, t.start_pos, nl)
                expe = coords(data, t.end_pos, nl)
                if (t.line, t.column) != exp or (t.end_line, t.end_column) != expe:
                    note('newline-uncounted:' + atom, {'grammar': g, 'text': repr(data), 'use_bytes': use_bytes},
                         {'token': repr(t.value), 'start_pos': t.start_pos, 'line': t.line, 'column': t.column, 'end_line': t.end_line, 'end_column': t.end_column},
                         {'line,column': exp, 'end_line,end_column': expe})
                    break

# the same question for globally supplied flags
for gflags, rx, s in ((re.S, 'b.', 'b\n'), (re.S, 'b.+c', 'b\n\nc')):
    for lexer in ('basic', 'contextual'):
        evals += 1
        g = 'start: (T|A)*\nT: /%s/\nA: "a"\n' % rx
        lark = Lark(g, parser='lalr', lexer=lexer, g_regex_flags=gflags)
        text = s + 'a'
        try:
            toks = list(lark.lex(text)) if lexer == 'basic' else list(lark.parse(text).scan_values(lambda v: isinstance(v, Token)))
        except Exception:
            continue
        for t in toks:
            if (t.line, t.column) != coords(text, t.start_pos, '\n'):
                note('newline-uncounted:g_regex_flags', {'grammar': g, 'text': text, 'g_regex_flags': int(gflags), 'lexer': lexer},
                     {'token': repr(t.value), 'line': t.line, 'column': t.column}, {'line,column': coords(text, t.start_pos, '\n')})

# ---------------------------------------------------------------- (B) dynamic lexers: every token of the result
DYN = [
    ('start: (A|B|NL)*\nA: "a"\nB: /b+/\nNL: /\\n+/\n%ignore " "', 'ab \n'),
    ('start: (w|C)*\nw: W\nW: /[ab]+/\nC: /#[^\\n]*/\n%ignore /\\s+/', 'ab# \n'),
    ('start: (A|S)*\nA: "a"\nS: /"(.|\\n)*?"/\n%ignore /[ \\n]/', 'a" \n'),
]
L = 4 if tier == 'quick' else 5
for g, alpha in DYN:
    for use_bytes in (False, True):
        for lexer in ('dynamic', 'dynamic_complete'):
            lark = Lark(g, parser='earley', lexer=lexer, use_bytes=use_bytes)
            nl = b'\n' if use_bytes else '\n'
            for n in range(0, L + 1):
                for chars in itertools.product(alpha, repeat=n):
                    s = ''.join(chars)
                    data = s.encode('ascii') if use_bytes else s
                    evals += 1; distinct += 1
                    try:
                        tree = lark.parse(data)
                    except Exception:
                        continue
                    for t in tree.scan_values(lambda v: isinstance(v, Token)):
                        last = coords(data, t.end_pos - 1, nl) if t.end_pos is not None and t.end_pos > 0 else None
                        ok = (t.end_pos is not None and data[t.start_pos:t.end_pos] == t.value and (t.line, t.column) == coords(data, t.start_pos, nl)
                              and (t.end_line, t.end_column) == (last[0], last[1] + 1))
                        if not ok:
                            note('dynamic-token:%s' % ('bytes' if use_bytes else 'str'), {'grammar': g, 'lexer': lexer, 'text': repr(data)},
                                 {'value': repr(t.value), 'start_pos': t.start_pos, 'end_pos': t.end_pos, 'line': t.line, 'column': t.column,
                                  'end_line': t.end_line, 'end_column': t.end_column},
                                 'text[start_pos:end_pos] == value; line/column of start_pos; end = one past the last character on its line')
                if len(fails) >= 4: break

# ---------------------------------------------------------------- (C) propagate_positions
PP = [  # no inlining: node k of the filtered tree corresponds to node k of the keep_all_tokens tree
    ('start: stmt*\nstmt: "let" NAME "=" expr ";"\nexpr: NAME | "(" expr ")" | "[" [expr ("," expr)*] "]"\nNAME: /[a-z]/\n%ignore /[ \\n]+/',
     ['let a = b;', 'let a = (b);\nlet c = [a, (b),\n c];', '\n let x = [ ] ; \n', 'let a = [[b], (\n(c))];let q=(\n(\nz\n)\n)\n;']),
    ('start: item+\nitem: "<" body ">"\nbody: (WORD | item)*\nWORD: /[a-z]+/\n%ignore /\\s+/',
     ['<a>', '< a <b\n c> >\n<>', '<<<\n>>\n>']),
]
ENGINES = [('lalr', 'basic'), ('lalr', 'contextual'), ('earley', 'basic'), ('earley', 'dynamic')]


def span_of(tree):
    toks = list(tree.scan_values(lambda v: isinstance(v, Token)))
    if not toks:
        return None
    a = min(toks, key=lambda t: t.start_pos); b = max(toks, key=lambda t: t.end_pos)
    return (a.start_pos, a.line, a.column, b.end_pos, b.end_line, b.end_column)


def meta_span(m):
    return (m.start_pos, m.line, m.column, m.end_pos, m.end_line, m.end_column)


def check_nesting(tree, inp):
    for node in tree.iter_subtrees():
        prev_end = None
        for c in node.children:
            if isinstance(c, Tree):
                if c.meta.empty: continue
                a, b = c.meta.start_pos, c.meta.end_pos
            elif isinstance(c, Token):
                a, b = c.start_pos, c.end_pos
            else:
                continue
            if node.meta.empty or not (node.meta.start_pos <= a <= b <= node.meta.end_pos) or (prev_end is not None and a < prev_end):
                note('meta-nesting', inp, {'node': node.data, 'node_span': None if node.meta.empty else [node.meta.start_pos, node.meta.end_pos], 'child_span': [a, b], 'previous_child_end': prev_end},
                     'children ordered, disjoint and inside the parent span')
            prev_end = b


for g, texts in PP:
    for p, l in ENGINES:
        lark = Lark(g, parser=p, lexer=l, propagate_positions=True)
        full = Lark(g, parser=p, lexer=l, propagate_positions=True, keep_all_tokens=True)
        for text in texts:
            evals += 1; distinct += 1
            inp = {'grammar': g, 'engine': '%s/%s' % (p, l), 'text': text}
            t1, t2 = lark.parse(text), full.parse(text)
            n1, n2 = list(t1.iter_subtrees_topdown()), list(t2.iter_subtrees_topdown())
            if [n.data for n in n1] != [n.data for n in n2]:
                note('pp-oracle-shape', inp, [n.data for n in n1], [n.data for n in n2]); continue
            for a, b in zip(n1, n2):
                exp = span_of(b)
                if exp is None:
                    if not a.meta.empty:
                        note('meta-empty', inp, {'node': a.data, 'meta': meta_span(a.meta)}, 'a node that matched no token has an empty meta')
                    continue
                if a.meta.empty or meta_span(a.meta) != exp:
                    note('meta-span', inp, {'node': a.data, 'meta': None if a.meta.empty else meta_span(a.meta)},
                         {'(start_pos, line, column, end_pos, end_line, end_column) from first to last token the rule matched, filtered ones included': exp})
            check_nesting(t1, inp)

# inlined rules: the surviving child keeps its own span; its container widens through every level of inlining, so the parent still
# spans all the tokens its rule matched
G4 = 'start: wrap+\nwrap: a\n?a: "[" b "]"\n?b: "(" c ")"\nc: NAME\nNAME: /[a-z]/\n%ignore /[ \\n]+/'
for p, l in ENGINES:
    lark = Lark(G4, parser=p, lexer=l, propagate_positions=True)
    for text in ['[(a)]', '[ (a\n) ]\n[\n(b)]', ' [\n (\n a\n )\n ]']:
        evals += 1; distinct += 1
        inp = {'grammar': G4, 'engine': '%s/%s' % (p, l), 'text': text}
        tree = lark.parse(text)
        opens = [i for i, ch in enumerate(text) if ch == '[']
        closes = [i for i, ch in enumerate(text) if ch == ']']
        wraps = [n for n in tree.children]
        for k, w in enumerate(wraps):
            exp = (opens[k], closes[k] + 1)
            got = None if w.meta.empty else (w.meta.start_pos, w.meta.end_pos)
            if got != exp:
                note('meta-span-inlined', inp, {'node': 'wrap #%d' % k, 'span': got}, {'span of "[" ... "]" (filtered tokens of the inlined rules included)': exp})
            c = w.children[0]
            if c.data != 'c' or (c.meta.start_pos, c.meta.end_pos) != (text.index(c.children[0], opens[k]), text.index(c.children[0], opens[k]) + 1):
                note('meta-span-inlined-child', inp, {'node': c.data, 'span': [c.meta.start_pos, c.meta.end_pos]}, 'the surviving child keeps the span of its own rule')
            if (w.meta.line, w.meta.column) != coords(text, opens[k], '\n'):
                note('meta-span-inlined', inp, {'node': 'wrap #%d' % k, 'line,column': [w.meta.line, w.meta.column]}, {'line,column': coords(text, opens[k], '\n')})
        check_nesting(tree, inp)

res = {'fails': bool(fails), 'evaluations': evals, 'distinct': distinct, 'failures': fails}
if fails: res.update(input=fails[0]['input'], observed=fails[0]['observed'], required=fails[0]['required'])
print(json.dumps(res, default=str))
