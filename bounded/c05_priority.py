"""Native cross-check / replay search for C05: ambiguity='resolve' picks a derivation of maximal total priority (minimal under invert,
priority-blind under None), identically under different hash seeds. argv: tier seed [--child]"""
import itertools, json, os, subprocess, sys
from lark import Lark, Tree
from lark.visitors import CollapseAmbiguities

tier = sys.argv[1] if len(sys.argv) > 1 else 'quick'
TEMPLATES = [
    ('start: a | b\na{P1}: X\nb{P2}: X\nX: "x"', ['x'], ['a', 'b']),
    ('start: p q | r\np{P1}: X\nq: X\nr{P2}: X X\nX: "x"', ['xx'], ['p', 'r']),
    ('start: a | b\na{P1}: "x" | "y"\nb{P2}: "x" | "z"', ['x'], ['a', 'b']),                 # several alternatives share one options object
    ('start: a | b\na{P1}: X X X\nb{P2}: "xxx"\nX: "x"', ['xxx'], ['a', 'b']),               # priority counted once per rule application
    ('start: a a\na{P1}: X | X X\nX: "x"', ['xxx'], ['a']),
    ('start: item+\nitem: a | b\na{P1}: X X\nb{P2}: X\nX: "x"', ['xxx', 'xxxx'], ['a', 'b']),
    # alternatives with [..] get their own copy of the rule's options at compile time: every copy carries (and inverts) the priority
    ('start: a | b\na{P1}: X [Y]\nb{P2}: X | X Y\nX: "x"\nY: "y"', ['x', 'xy'], ['a', 'b']),
    ('start: a | b\na{P1}: [Y] X | X [Y] [Y]\nb{P2}: X\nX: "x"\nY: "y"', ['x'], ['a', 'b']),
]
PRS = [-1, 0, 1, 2] if tier == 'quick' else [-2, -1, 0, 1, 2]


def total(t, pr):
    if not isinstance(t, Tree): return 0
    return pr.get(str(t.data), 0) + sum(total(c, pr) for c in t.children)


def norm(t):
    return (str(t.data), [norm(c) for c in t.children]) if isinstance(t, Tree) else str(t)


def run():
    out, fails, evals = [], [], 0
    for tpl, inputs, names in TEMPLATES:
        for p1, p2 in itertools.product(PRS, repeat=2):
            pr = {names[0]: p1}
            if len(names) > 1: pr[names[1]] = p2
            elif p2 != PRS[0]: continue
            g = tpl.replace('{P1}', '.%d' % p1).replace('{P2}', '.%d' % p2)
            g0 = tpl.replace('{P1}', '').replace('{P2}', '')
            for lexer in ('basic', 'dynamic'):
                for text in inputs:
                    try:
                        # derivations are enumerated without placeholders (CollapseAmbiguities cannot combine None children); totals do not depend on them
                        ex = Lark(g, parser='earley', lexer=lexer, ambiguity='explicit', maybe_placeholders=False).parse(text)
                        ders = CollapseAmbiguities().transform(ex)
                    except Exception as e:
                        continue
                    scores = [total(d, pr) for d in ders]
                    for mode in ('normal', 'invert', None):
                        evals += 1
                        t = Lark(g, parser='earley', lexer=lexer, ambiguity='resolve', priority=mode).parse(text)
                        out.append(str(norm(t)))
                        sc = total(t, pr)
                        if mode == 'normal' and sc != max(scores):
                            fails.append({'key': 'optimal', 'input': {'grammar': g, 'text': text, 'lexer': lexer, 'priority': 'normal'}, 'observed': {'tree': str(norm(t)), 'total': sc}, 'required': {'maximum over derivations': max(scores)}})
                        if mode == 'invert' and sc != min(scores):
                            fails.append({'key': 'optimal-invert', 'input': {'grammar': g, 'text': text, 'lexer': lexer, 'priority': 'invert'}, 'observed': {'tree': str(norm(t)), 'total': sc}, 'required': {'minimum over derivations': min(scores)}})
                        if mode is None:
                            t0 = Lark(g0, parser='earley', lexer=lexer, ambiguity='resolve').parse(text)
                            if norm(t0) != norm(t):
                                fails.append({'key': 'priority-none', 'input': {'grammar': g, 'text': text, 'lexer': lexer, 'priority': None}, 'observed': str(norm(t)), 'required': str(norm(t0)) + ' (as without priorities)'})
    # priority=None: terminal priorities are switched off too, under every Earley lexer
    TERM_TPL = [('start: A B | AB\nA: "a"\nB: "b"\nAB{P}: "ab"', 'ab'), ('start: (A | AA)+\nA{P}: "a"\nAA: "aa"', 'aaa'),
                ('start: KW | NAME\nKW{P}: "if"\nNAME: /[a-z]+/', 'if'), ('start: x | y\nx: A\ny: B\nA: /a/\nB{P}: /a|b/', 'a')]
    for tpl, text in TERM_TPL:
        for p1 in (-3, 3):
            g, g0 = tpl.replace('{P}', '.%d' % p1), tpl.replace('{P}', '')
            for lexer in ('basic', 'dynamic', 'dynamic_complete'):
                evals += 1
                try:
                    t0 = str(norm(Lark(g0, parser='earley', lexer=lexer, ambiguity='resolve', priority=None).parse(text)))
                except Exception as e:
                    t0 = 'raised ' + type(e).__name__
                try:
                    t = str(norm(Lark(g, parser='earley', lexer=lexer, ambiguity='resolve', priority=None).parse(text)))
                except Exception as e:
                    t = 'raised ' + type(e).__name__
                out.append(t)
                if t != t0:
                    fails.append({'key': 'priority-none-terminals', 'input': {'grammar': g, 'text': text, 'lexer': lexer, 'priority': None}, 'observed': t, 'required': t0 + ' (as without priorities)'})
    # built-in precedence: a directly empty alternative only where no non-empty alternative of the rule matches the same span
    for mode, pr in (('normal', -1), ('invert', 1), ('normal', 0)):
        g = 'start: opt X\nopt: | inner\ninner%s: E*\nE: "e"\nX: "x"' % ('.%d' % pr if pr else '')
        for lexer in ('basic', 'dynamic'):
            evals += 1
            t = Lark(g, parser='earley', lexer=lexer, priority=mode).parse('x')
            out.append(str(norm(t)))
            if norm(t) != ('start', [('opt', [('inner', [])]), 'x']):
                fails.append({'key': 'empty-alternative-last', 'input': {'grammar': g, 'text': 'x', 'lexer': lexer, 'priority': mode}, 'observed': str(norm(t)), 'required': "('start', [('opt', [('inner', [])]), 'x'])"})
    return out, fails, evals

if '--child' in sys.argv:
    out, fails, evals = run()
    print(json.dumps({'digest': hash(tuple(out)) if False else __import__('hashlib').sha256('\n'.join(out).encode()).hexdigest(), 'fails': fails[:3], 'evals': evals}))
    sys.exit(0)

seeds = [0, 1, 7] if tier == 'quick' else [0, 1, 2, 3, 7, 11]
me = os.path.join(os.environ.get('VERIF_HOME', '/verif'), 'bounded', 'c05_priority.py')
fails, digests, evals = [], {}, 0
for sd in seeds:
    env = dict(os.environ, PYTHONHASHSEED=str(sd))
    p = subprocess.run([sys.executable, me, tier, '0', '--child'], capture_output=True, text=True, env=env)
    lines = [l for l in p.stdout.splitlines() if l.startswith('{')]
    if not lines:
        fails.append({'key': 'child', 'input': {'PYTHONHASHSEED': sd}, 'observed': p.stderr[-400:], 'required': 'child run'})
        break
    r = json.loads(lines[-1])
    evals += r['evals']
    digests[sd] = r['digest']
    fails += r['fails']
if len(set(digests.values())) > 1:
    fails.append({'key': 'hash-seed', 'input': {'seeds': seeds}, 'observed': digests, 'required': 'identical results under every hash seed'})
res = {'fails': bool(fails), 'evaluations': evals, 'distinct': evals, 'failures': fails[:5]}
if fails: res.update(input=fails[0]['input'], observed=fails[0]['observed'], required=fails[0]['required'])
print(json.dumps(res, default=str))
