"""Native cross-check / replay search for C03: documented shaping rules on hand-computed expectations, and agreement of every engine
(LALR basic/contextual, Earley basic/dynamic/dynamic_complete, CYK) on single-derivation inputs. argv: tier seed"""
import json, sys
from lark import Lark, Tree, Token

tier = sys.argv[1] if len(sys.argv) > 1 else 'quick'
fails = []
evals = distinct = 0


def note(key, inp, obs, req):
    if not any(f['key'] == key for f in fails):
        fails.append({'key': key, 'input': inp, 'observed': obs, 'required': req})


def norm(t):
    if isinstance(t, Tree): return (str(t.data), [norm(c) for c in t.children])
    if t is None: return None
    return '%s:%s' % (t.type, t) if isinstance(t, Token) else repr(t)

N = None
# (grammar, options, [(input, expected shaped tree or None = only engine agreement)])
CASES = [
    # anonymous literals dropped, named terminals kept, _TERMINALS dropped, order kept
    ('start: "(" NAME _SEP NAME ")"\nNAME: /[a-z]+/\n_SEP: ","', {}, [('(a,b)', ('start', ['NAME:a', 'NAME:b']))]),
    # ! keeps everything
    ('!start: "(" NAME _SEP NAME ")"\nNAME: /[a-z]+/\n_SEP: ","', {}, [('(a,b)', ('start', ['LPAR:(', 'NAME:a', '_SEP:,', 'NAME:b', 'RPAR:)']))]),
    # keep_all_tokens option
    ('start: "(" NAME ")"\nNAME: /[a-z]+/', {'keep_all_tokens': True}, [('(a)', ('start', ['LPAR:(', 'NAME:a', 'RPAR:)']))]),
    # _rules inlined, ?rules with one child replaced, aliases rename
    ('start: _pair x\n_pair: NAME NAME\n?x: NAME | NAME "+" NAME -> add\nNAME: /[a-z]/', {},
     [('abc', ('start', ['NAME:a', 'NAME:b', 'NAME:c'])), ('abc+d', ('start', ['NAME:a', 'NAME:b', ('add', ['NAME:c', 'NAME:d'])]))]),
    # placeholders: as many None as the longest alternative keeps symbols; nothing when off
    ('start: NAME [NUM "," NUM | NUM] ";"\nNAME: /[a-z]/\nNUM: /[0-9]/', {'maybe_placeholders': True},
     [('a;', ('start', ['NAME:a', N, N])), ('a1;', ('start', ['NAME:a', 'NUM:1'])) if False else ('a1,2;', ('start', ['NAME:a', 'NUM:1', 'NUM:2']))]),
    ('start: NAME [NUM "," NUM | NUM] ";"\nNAME: /[a-z]/\nNUM: /[0-9]/', {'maybe_placeholders': False}, [('a;', ('start', ['NAME:a']))]),
    # pending placeholders before filtered tokens and at the end of a rule
    ('call: NAME "(" [args] ")" ";"\nargs: NAME\nNAME: /[a-z]/', {'maybe_placeholders': True, 'start': 'call'}, [('g();', ('call', ['NAME:g', N])), ('g(x);', ('call', ['NAME:g', ('args', ['NAME:x'])]))]),
    ('start: [A] "x" [B "y" B] "z"\nA: "a"\nB: "b"', {'maybe_placeholders': True}, [('xz', ('start', [N, N, N])), ('axbybz', ('start', ['A:a', 'B:b', 'B:b']))]),
    # ! rule with named underscore terminals inside [..]
    ('!start: [_KW] NAME [_SEP NAME]\n_KW: "k"\n_SEP: ","\nNAME: /[a-z]/', {'maybe_placeholders': True}, [('x', ('start', [N, 'NAME:x', N, N])), ('kx,y', ('start', ['_KW:k', 'NAME:x', '_SEP:,', 'NAME:y']))]),
    # a ?rule whose only child is a placeholder, used inside another rule
    ('start: item+\nitem: NAME group NAME ";"\n?group: "(" [NAME] ")"\nNAME: /[a-z]/\n%ignore " "', {'maybe_placeholders': True},
     [('c () d;', ('start', [('item', ['NAME:c', N, 'NAME:d'])])), ('c (x) d;', ('start', [('item', ['NAME:c', 'NAME:x', 'NAME:d'])]))]),
    # repetition helpers stay invisible; left recursion
    ('start: NAME+ "." _list\n_list: NUM | _list "," NUM\nNAME: /[a-z]/\nNUM: /[0-9]/', {}, [('ab.1,2,3', ('start', ['NAME:a', 'NAME:b', 'NUM:1', 'NUM:2', 'NUM:3']))]),
    # two rules with the same [..] layout: each keeps its OWN modifiers (?, !, aliases) - options are per rule, not per layout
    ('start: a b\na: [X] Y\n?b: [X] Z\nX: "x"\nY: "y"\nZ: "z"', {'maybe_placeholders': True}, [('yz', ('start', [('a', [N, 'Y:y']), 'Z:z']) if False else ('start', [('a', [N, 'Y:y']), ('b', [N, 'Z:z'])])), ('xyxz', ('start', [('a', ['X:x', 'Y:y']), ('b', ['X:x', 'Z:z'])]))]),
    ('start: a b\na: [X] Y\n?b: [X] Z\nX: "x"\nY: "y"\nZ: "z"', {'maybe_placeholders': False}, [('yz', ('start', [('a', ['Y:y']), 'Z:z'])), ('xyz', ('start', [('a', ['X:x', 'Y:y']), 'Z:z']))]),
    ('start: b a\n?b: [X] Z\na: [X] Y\nX: "x"\nY: "y"\nZ: "z"', {'maybe_placeholders': False}, [('zy', ('start', ['Z:z', ('a', ['Y:y'])])), ('zxy', ('start', ['Z:z', ('a', ['X:x', 'Y:y'])]))]),
    ('start: a b\n!a: ["("] Y\nb: ["("] Z\nY: "y"\nZ: "z"', {'maybe_placeholders': False}, [('(y(z', ('start', [('a', ['LPAR:(', 'Y:y']), ('b', ['Z:z'])])), ('yz', ('start', [('a', ['Y:y']), ('b', ['Z:z'])]))]),
    # helper rules of + and * are not shared between a rule that repeats an anonymous literal (filtered) and one that repeats the
    # equal-looking named terminal (kept)
    ('start: a ";" b\na: "x"+\nb: X+\nX: "x"', {}, [('xx;xx', ('start', [('a', []), ('b', ['X:x', 'X:x'])]))]),
    ('start: b ";" a\na: "x"+\nb: X+\nX: "x"', {}, [('xx;x', ('start', [('b', ['X:x', 'X:x']), ('a', [])]))]),
    # template instances: a filtered literal argument and the equal-looking named terminal make different instances; a literal prepared
    # under a ! rule is not the literal of a plain rule
    ('start: t{"x"} t{X}\nt{a}: a "y"\nX: "x"', {}, [('xyxy', ('start', [('t', []), ('t', ['X:x'])]))]),
    ('start: t{X} t{"x"}\nt{a}: a "y"\nX: "x"', {}, [('xyxy', ('start', [('t', ['X:x']), ('t', [])]))]),
    ('start: c b\n!c: t{"x"}\nb: t{"x"}\nt{a}: a "y"', {}, [('xyxy', ('start', [('c', [('t', ['X:x'])]), ('b', [('t', [])])]))]),
    # names that contain underscores: alternatives whose symbol names concatenate to the same text stay distinct in every engine
    ('start: a\na: x_y z w | x y_z w\nx_y: "p"\nz: "q"\nw: "s"\nx: "p" "p"\ny_z: "q" "q"', {}, [('pqs', ('start', [('a', [('x_y', []), ('z', []), ('w', [])])])), ('ppqqs', ('start', [('a', [('x', []), ('y_z', []), ('w', [])])])),
                                                                                                      ('ppqs', 'rejected'), ('pqqs', 'rejected')]),
    ('start: r\nr: b c d e | b_c d e\nb: "1"\nc: "2"\nd: "3"\ne: "4"\nb_c: "5"', {}, [('1234', ('start', [('r', [('b', []), ('c', []), ('d', []), ('e', [])])])), ('534', ('start', [('r', [('b_c', []), ('d', []), ('e', [])])])), ('5234', 'rejected'), ('134', 'rejected')]),
]
ENGINES = [('lalr', 'basic'), ('lalr', 'contextual'), ('earley', 'basic'), ('earley', 'dynamic'), ('earley', 'dynamic_complete'), ('cyk', 'basic')]
for g, opts, samples in CASES:
    for text, exp in samples:
        results = {}
        for parser, lexer in ENGINES:
            evals += 1; distinct += 1
            try:
                p = Lark(g, parser=parser, lexer=lexer, **opts)
                results[(parser, lexer)] = norm(p.parse(text))
            except Exception as e:
                from lark.exceptions import UnexpectedInput as _UI, ParseError as _PE
                results[(parser, lexer)] = 'rejected' if isinstance(e, (_UI, _PE)) else 'raised %s' % type(e).__name__
        ref = results[('lalr', 'basic')]
        if exp is not None and ref != exp:
            note('shaping', {'grammar': g, 'options': opts, 'text': text, 'engine': 'lalr/basic'}, ref, exp)
        for k, v in results.items():
            if v != ref and not (isinstance(v, str) and v.startswith('raised') and k[0] == 'cyk'):
                note('engines-agree', {'grammar': g, 'options': opts, 'text': text, 'engine': '%s/%s' % k}, v, ref)
            if exp is not None and v != exp and not (isinstance(v, str) and v.startswith('raised') and k[0] == 'cyk'):
                note('shaping', {'grammar': g, 'options': opts, 'text': text, 'engine': '%s/%s' % k}, v, exp)

# helper-rule sharing between a rule that keeps its tokens and one that does not
g = '!a: "x"+\nb: "x"+\nstart: a "," b'
for parser in ('lalr', 'earley'):
    evals += 1
    r = norm(Lark(g, parser=parser).parse('xx,x'))
    exp = ('start', [('a', ['X:x', 'X:x']), ('b', [])])
    if r != exp:
        note('helper-rule-options', {'grammar': g, 'text': 'xx,x', 'parser': parser}, r, exp)
# CYK's grammar normalisation works on sets of rules: the result must not depend on the hash seed (unit chains shared by two rules)
import os, subprocess
UNIT = 'start: a ";" d\na: b\nd: b\nb: c\nc: X Y\nX: "x"\nY: "y"'
probe = "import sys\nfrom lark import Lark\ntry:\n    t = Lark(%r, parser='cyk').parse('xy;xy'); print('ok', len(t.children))\nexcept Exception as e:\n    print('err', type(e).__name__)\n" % UNIT
for hs in ([0, 6, 11] if tier == 'quick' else list(range(0, 24))):
    evals += 1
    try:
        out = subprocess.run([sys.executable, '-c', probe], env=dict(os.environ, PYTHONHASHSEED=str(hs)), capture_output=True, text=True, timeout=60).stdout.strip()
    except Exception as e:
        out = 'probe failed: %r' % (e,)
    if out != 'ok 2':
        note('cyk-hash-seed', {'grammar': UNIT, 'text': 'xy;xy', 'PYTHONHASHSEED': hs}, out, 'the same tree as every other engine (start with children a, d)')
res = {'fails': bool(fails), 'evaluations': evals, 'distinct': distinct, 'failures': fails}
if fails: res.update(input=fails[0]['input'], observed=fails[0]['observed'], required=fails[0]['required'])
print(json.dumps(res, default=str))
