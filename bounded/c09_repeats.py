"""Bounded stand-in / replay search for C09 outside the deductive kernels: repetition operators through the whole pipeline
(grammar loading, EBNF expansion, LALR and Earley): x~n, x~n..m, x?, x*, x+ for x a terminal, a rule, a group, a template argument,
and the same operators inside terminals.  Oracle: counting.  argv: tier seed"""
import json, random, sys
from lark import Lark, Tree, Token
from lark.exceptions import UnexpectedInput

tier = sys.argv[1] if len(sys.argv) > 1 else 'quick'
seed = int(sys.argv[2]) if len(sys.argv) > 2 else 1
rnd = random.Random(seed)
fails = []
evals = distinct = 0


def note(key, inp, obs, req):
    if not any(f['key'] == key for f in fails):
        fails.append({'key': key, 'input': inp, 'observed': obs, 'required': req})


def accepts(lark, text):
    try:
        return lark.parse(text)
    except UnexpectedInput:
        return None


# (name, grammar template with %s for the operator suffix, text of k occurrences, expected number of children per occurrence, child test)
ITEMS = [
    ('terminal', 'start: A%s\nA: "a"\n', lambda k: 'a' * k, lambda c: isinstance(c, Token) and c.type == 'A'),
    ('rule', 'start: x%s\nx: "a" B\nB: "b"\n', lambda k: 'ab' * k, lambda c: isinstance(c, Tree) and c.data == 'x'),
    ('group', 'start: (A B)%s\nA: "a"\nB: "b"\n', None, None),
    ('template', 'start: rep{A}\nrep{t}: t%s\nA: "a"\n', lambda k: 'a' * k, None),
    ('anon', 'start: "a"%s X\nX: "x"\n', None, None),
]
# items that are groups WITH alternatives (each occurrence chooses independently) or contain their own quantifier
ALT_ITEMS = [('("a"|"b")', ['a', 'b']), ('(A|b)', ['a', 'b']), ('("a" "b"?)', ['a', 'ab']), ('("a"~1..2)', ['a', 'aa']), ('(x|"b")', ['a', 'b'])]

if tier == 'quick':
    BOUNDS = [(0, 0), (0, 1), (1, 1), (2, 3), (0, 3), (3, 3), (49, 49), (50, 50), (51, 51), (0, 50), (0, 51), (1, 60), (48, 52), (50, 53), (64, 64), (100, 100), (30, 130), (127, 131), (211, 211), (0, 200)]
else:
    BOUNDS = [(n, m) for n in list(range(0, 8)) + [47, 48, 49, 50, 51, 52, 53, 63, 64, 65, 97, 100, 127, 128, 211, 256, 300] for m in sorted({n, n + 1, n + 2, n + 7, n + 49, n + 50, n + 51, n + 101, 2 * n + 3})] + \
             [(rnd.randint(0, 300), 0) for _ in range(40)]
    BOUNDS = [(n, m if m >= n else n + rnd.randint(0, 300)) for n, m in BOUNDS]

for parser in ('lalr', 'earley'):
    for name, gt, mk, is_child in ITEMS:
        for (n, m) in BOUNDS:
            if parser == 'earley' and m > 130 and tier == 'quick':
                continue
            suffix = ('~%d' % n) if n == m and rnd.random() < 0.5 else '~%d..%d' % (n, m)
            g = gt % suffix
            try:
                lark = Lark(g, parser=parser)
            except Exception as e:
                note('load:%s' % name, {'grammar': g, 'parser': parser}, repr(e)[:300], 'the grammar loads'); continue
            ks = sorted({k for k in (n - 2, n - 1, n, n + 1, (n + m) // 2, m - 1, m, m + 1, m + 2, 2 * m + 1) if k >= 0})
            for k in ks:
                evals += 1; distinct += 1
                if name == 'terminal' or name == 'template':
                    text = 'a' * k
                elif name == 'rule' or name == 'group':
                    text = 'ab' * k
                else:
                    text = 'a' * k + 'x'
                tree = accepts(lark, text)
                want = n <= k <= m
                if (tree is not None) != want:
                    note('count:%s' % name, {'grammar': g, 'parser': parser, 'occurrences': k}, 'accepted' if tree is not None else 'rejected', 'accepted iff %d <= k <= %d' % (n, m))
                    continue
                if tree is None:
                    continue
                node = tree if name != 'template' else tree.children[0]
                exp_children = {'terminal': k, 'rule': k, 'group': 2 * k, 'template': k, 'anon': 1}[name]
                helper = [t.data for t in tree.iter_subtrees() if str(t.data).startswith('_')]
                if len(node.children) != exp_children or helper:
                    note('shape:%s' % name, {'grammar': g, 'parser': parser, 'occurrences': k}, {'children': len(node.children), 'helper_nodes': helper[:3]},
                         '%d consecutive children, in order, no helper nodes' % exp_children)
                elif name == 'group' and [c.type for c in node.children] != ['A', 'B'] * k:
                    note('shape:group', {'grammar': g, 'parser': parser, 'occurrences': k}, [c.type for c in node.children][:8], 'A B repeated in order')
                elif name == 'rule' and not all(isinstance(c, Tree) and c.data == 'x' for c in node.children):
                    note('shape:rule', {'grammar': g, 'parser': parser, 'occurrences': k}, [getattr(c, 'data', c) for c in node.children][:8], 'k x-nodes')
        if len(fails) >= 4: break

    # groups with alternatives: every mix of the alternatives, k occurrences (ambiguous items only with Earley and small bounds)
    for item, units in ALT_ITEMS:
        ambiguous = any(u != v and v.startswith(u) for u in units for v in units)
        if ambiguous and parser == 'lalr':
            continue
        for (n, m) in ([(2, 2), (1, 3), (0, 2), (3, 3)] + ([(50, 50), (49, 51)] if parser == 'lalr' else [])):
            g = 'start: %s~%d..%d ";"\nA: "a"\nb: "b"\nx: "a"\n' % (item, n, m)
            try:
                lark = Lark(g, parser=parser)
            except Exception as e:
                note('load:alt-group', {'grammar': g, 'parser': parser}, repr(e)[:300], 'the grammar loads'); continue
            for k in sorted({max(n - 1, 0), n, m, m + 1}):
                mixes = [[units[(i + sh) % len(units)] if (i * 7 + sh) % 3 else units[0] for i in range(k)] for sh in range(3)] + [[units[i % len(units)] for i in range(k)]]
                for mix in mixes:
                    evals += 1; distinct += 1
                    text = ''.join(mix) + ';'
                    body = text[:-1]
                    # the number of occurrences a text can be split into need not be unique ("a"~1..2, "a" "b"?): reachable (position, count) pairs
                    seen, todo = {(0, 0)}, [(0, 0)]
                    while todo:
                        pos, cnt = todo.pop()
                        for u in set(units):
                            if body.startswith(u, pos) and (pos + len(u), cnt + 1) not in seen and cnt + 1 <= m + 2:
                                seen.add((pos + len(u), cnt + 1)); todo.append((pos + len(u), cnt + 1))
                    want = any(pos == len(body) and n <= c <= m for pos, c in seen)
                    got = accepts(lark, text) is not None
                    if got != want:
                        note('count:alt-group', {'grammar': g, 'parser': parser, 'text': text}, 'accepted' if got else 'rejected', 'accepted iff some split into %d..%d occurrences exists' % (n, m))
    # ?, *, +
    for name, gt, _, _ in ITEMS[:3]:
        for op, lo, hi in (('?', 0, 1), ('*', 0, None), ('+', 1, None)):
            g = gt % op
            lark = Lark(g, parser=parser)
            for k in (0, 1, 2, 3, 7):
                evals += 1
                text = ('a' if name == 'terminal' else 'ab') * k
                tree = accepts(lark, text)
                want = lo <= k and (hi is None or k <= hi)
                if (tree is not None) != want:
                    note('count:%s%s' % (name, op), {'grammar': g, 'parser': parser, 'occurrences': k}, 'accepted' if tree is not None else 'rejected', 'accepted iff %s <= k <= %s' % (lo, hi))
                elif tree is not None:
                    kids = [c for c in tree.children if c is not None]
                    if len(kids) != (2 * k if name == 'group' else k) or any(str(t.data).startswith('_') for t in tree.iter_subtrees()):
                        note('shape:%s%s' % (name, op), {'grammar': g, 'parser': parser, 'occurrences': k}, len(kids), 'k occurrences as consecutive children')

# the same operators inside terminals: multi-character items, alternations, nested terminals
TERMS = [('"ab"', ['ab']), ('("a"|"bc")', ['a', 'bc']), ('X', ['xy']), ('/a./', ['a!']), ('"a"', ['a']), ('("a" "b")', ['ab']), ('/a|bc/', ['a', 'bc']),
         ('/a|b/', ['a', 'b']), ('/b|a/', ['a', 'b']), ('Y', ['a', 'b']), ('/[ab]/', ['a', 'b']), ('/\\w|-/', ['a', '-'])]
TB = [(0, 1), (1, 1), (2, 2), (1, 3), (2, 5), (0, 3), (3, 3), (60, 60), (2, 70)] if tier == 'quick' else [(n, m) for n in (0, 1, 2, 3, 5, 50, 60) for m in (n, n + 1, n + 3, n + 60)]
for item, unit in TERMS:
    units = unit
    for spec in [('~%d..%d' % b, b[0], b[1]) for b in TB] + [('~%d' % b[0], b[0], b[0]) for b in TB if b[0] == b[1]] + [('?', 0, 1), ('*', 0, None), ('+', 1, None)]:
        op, lo, hi = spec
        g = 'start: T E\nT: %s%s\nE: "."\nX: "xy"\nY: /a|b/\n' % (item, op)
        for parser, lexer in (('lalr', 'basic'), ('earley', 'dynamic')):
            try:
                lark = Lark(g, parser=parser, lexer=lexer)
            except Exception as e:
                if lo == 0:
                    continue          # a terminal that can match the empty string is rejected: outside the property
                note('load:terminal-op', {'grammar': g, 'parser': parser}, repr(e)[:300], 'the grammar loads'); continue
            top = (hi if hi is not None else lo + 3) + 2
            for k in sorted({max(lo - 1, 1), lo, lo + 1, top - 3, top - 2, top - 1, top}):
                if k < 1: continue
                evals += 1; distinct += 1
                text = ''.join(units[i % len(units)] for i in range(k)) + '.'
                tree = accepts(lark, text)
                want = lo <= k and (hi is None or k <= hi)
                if (tree is not None) != want:
                    note('count:in-terminal', {'grammar': g, 'parser': parser, 'lexer': lexer, 'text': text, 'occurrences': k}, 'accepted' if tree is not None else 'rejected',
                         'accepted iff %s <= k <= %s' % (lo, hi))
                elif tree is not None and tree.children[0] != text[:-1]:
                    note('value:in-terminal', {'grammar': g, 'parser': parser, 'text': text}, repr(tree.children[0]), 'one token holding all k occurrences')

res = {'fails': bool(fails), 'evaluations': evals, 'distinct': distinct, 'failures': fails}
if fails: res.update(input=fails[0]['input'], observed=fails[0]['observed'], required=fails[0]['required'])
print(json.dumps(res, default=str))
