"""Native cross-check / replay search for C17: the mangle closure, _define/_extend on the definition map, and import / override /
extend scenarios compared with the grammar written out by hand. argv: tier seed"""
import itertools, json, os, sys, tempfile, shutil
from lark import Lark, Tree
from lark.load_grammar import _get_mangle, GrammarBuilder
from lark.exceptions import GrammarError

tier = sys.argv[1] if len(sys.argv) > 1 else 'quick'
fails = []
evals = distinct = 0


def note(key, inp, obs, req):
    if not any(f['key'] == key for f in fails):
        fails.append({'key': key, 'input': inp, 'observed': obs, 'required': req})

L = 3 if tier == 'quick' else 4
names = [''.join(c) for n in range(1, L + 1) for c in itertools.product('a_A', repeat=n)]
for prefix in ('m', 'pkg', '_m', 'a_b'):
    for aliases in ({}, {'a': 'zz', '_a': '_q'}):
        mg = _get_mangle(prefix, aliases)
        seen = {}
        for s in names:
            evals += 1; distinct += 1
            r = mg(s)
            exp = aliases[s] if s in aliases else (('_%s__%s' % (prefix, s[1:])) if s[0] == '_' else '%s__%s' % (prefix, s))
            if r != exp:
                note('mangle', {'prefix': prefix, 'name': s, 'aliases': aliases}, r, exp)
            if s not in aliases:
                if r in seen and seen[r] != s:
                    note('mangle-injective', {'prefix': prefix, 'names': [seen[r], s]}, r, 'distinct names stay distinct')
                seen[r] = s
                if r.startswith('__'):
                    note('mangle-reserved', {'prefix': prefix, 'name': s}, r, 'not in the reserved double-underscore space')
                if not prefix.startswith('_') and r.startswith('_') != s.startswith('_'):
                    note('mangle-class', {'prefix': prefix, 'name': s}, r, 'leading underscore preserved')

# definition map
def fresh_builder():
    b = GrammarBuilder()
    b._define('a', False, Tree('expansions', [Tree('expansion', [])]))
    b._define('T', True, Tree('expansions', [Tree('expansion', [])]))
    return b
b = fresh_builder(); before = dict(b._definitions)
for name, is_term, override in itertools.product(['a', 'b', 'T', '__x'], [False, True], [False, True]):
    evals += 1; distinct += 1
    b = fresh_builder(); before = dict(b._definitions)
    exp = Tree('expansions', [])
    should_fail = (name in before and not override) or (name not in before and override) or name.startswith('__')
    try:
        b._define(name, is_term, exp, override=override)
        ok = not should_fail and b._definitions[name].tree is exp and all(b._definitions[k] is v for k, v in before.items() if k != name) and set(b._definitions) == set(before) | {name}
        if not ok: note('_define', {'name': name, 'is_term': is_term, 'override': override}, sorted(b._definitions), 'exactly this key added/replaced, GrammarError on clashes')
    except GrammarError:
        if not should_fail or dict(b._definitions) != before:
            note('_define', {'name': name, 'is_term': is_term, 'override': override}, 'GrammarError / map changed', 'no error' if not should_fail else 'map untouched')
b = fresh_builder()
t = b._definitions['a'].tree; kids = t.children; old = list(kids); new = Tree('expansion', ['n'])
b._extend('a', False, new)
evals += 1
if not (b._definitions['a'].tree is t and t.children is kids and kids == [new] + old):
    note('_extend', {'name': 'a'}, 'tree replaced or alternative not first', 'existing expansions tree extended in place, new alternative first')

# scenarios: imported / overridden / extended grammar vs the same written out by hand
d = tempfile.mkdtemp()
try:
    open(os.path.join(d, 'lib.lark'), 'w').write('item: WORD sep WORD\nsep: ","\nWORD: LETTER+\nLETTER: "a".."c"\nnum: DIGIT+\nDIGIT: "0".."3"\nNUMBER: DIGIT+\n_pad{x}: "<" x ">"\nwrapped: _pad{WORD}\n')
    SC = [
        ('start: item\n%import lib (item, sep, WORD, LETTER)\n', 'start: item\nitem: WORD sep WORD\nsep: ","\nWORD: LETTER+\nLETTER: "a".."c"\n', ['a,b', 'ab,c', 'a', 'a,,b']),
        ('start: item\n%import lib (item, WORD)\nsep: ";"\n', None, ['a,b', 'a;b']),
        ('start: thing\n%import lib.item -> thing\n%import lib (sep, WORD, LETTER)\n', 'start: thing\nthing: WORD sep WORD\nsep: ","\nWORD: LETTER+\nLETTER: "a".."c"\n', ['a,b', 'a;b']),
        ('start: num\n%import lib (num, DIGIT)\n%override DIGIT: "7".."9"\n', 'start: num\nnum: DIGIT+\nDIGIT: "7".."9"\n', ['78', '01']),
        ('start: NUMBER\n%import lib (NUMBER, DIGIT)\n%extend DIGIT: "9"\n', 'start: NUMBER\nNUMBER: DIGIT+\nDIGIT: "9" | "0".."3"\n', ['09', '9', '4']),
        ('start: num\n%import lib (num, DIGIT)\n%extend num: "x"\n', 'start: num\nnum: "x" | DIGIT+\nDIGIT: "0".."3"\n', ['x', '01', 'xx']),
    ]
    def norm(t):
        if isinstance(t, Tree): return (str(t.data), [norm(c) for c in t.children])
        return (str(getattr(t, 'type', None)), str(t))
    def beh(p, inputs):
        out = []
        for t in inputs:
            try: out.append(str(norm(p.parse(t))))
            except Exception as e: out.append('err:' + type(e).__name__)
        return out
    for g, inlined, inputs in SC:
        evals += 1; distinct += 1
        for parser in ('lalr', 'earley'):
            try:
                p = Lark(g, import_paths=[d], parser=parser)
            except Exception as e:
                note('scenario', {'grammar': g}, 'construction raised %s: %s' % (type(e).__name__, str(e)[:100]), 'same as hand-written grammar'); continue
            if inlined is None:
                # local `sep` must not capture the imported rule's own `sep`
                if beh(p, inputs) != [str(('start', [('item', [('WORD', 'a'), ('lib__sep', []), ('WORD', 'b')])])), 'err:UnexpectedCharacters']:
                    note('capture', {'grammar': g}, beh(p, inputs), 'imported item keeps using its module\'s sep')
                continue
            q = Lark(inlined, parser=parser)
            if beh(p, inputs) != beh(q, inputs):
                note('scenario', {'grammar': g, 'inlined': inlined, 'parser': parser}, beh(p, inputs), beh(q, inputs))
    # ---- templates
    def rename(x, f):
        return (f(x[0]), [rename(c, f) if isinstance(c[1], list) else c for c in x[1]]) if isinstance(x[1], list) else x
    def behn(p, inputs, f):
        out = []
        for t in inputs:
            try: out.append(str(rename(norm(p.parse(t)), f)))
            except Exception as e: out.append('err:' + type(e).__name__)
        return out
    import re as _re
    strip = lambda name: _re.sub(r'\{.*\}$', '', name)          # an instance `kw{X}` is compared with a hand-written rule named kw_X
    open(os.path.join(d, 'tl.lark'), 'w').write('_sep{x, s}: x (s x)*\nnumber_list: "[" _sep{NUMBER, ","} "]"\nNUMBER: /[0-9]+/\n')
    TS = [
        # a template declared with a priority: every instance carries it (Earley picks the higher-priority reading)
        ('start: kw{PASS} | name\nkw{w}.2: w\nname: NAME\nPASS: "pass"\nNAME: /[a-z]+/\n', 'start: kw | name\nkw.2: PASS\nname: NAME\nPASS: "pass"\nNAME: /[a-z]+/\n', ['pass', 'x'], 'earley', {'lexer': 'dynamic'}),
        ('start: a{X} | b\na{t}.3: t t\nb.1: X X\nX: "x"\n', 'start: a | b\na.3: X X\nb.1: X X\nX: "x"\n', ['xx'], 'earley', {}),
        ('start: a{X} | b\na{t}.1: t t\nb.3: X X\nX: "x"\n', 'start: a | b\na.1: X X\nb.3: X X\nX: "x"\n', ['xx'], 'earley', {}),
        # modifiers of the template reach the instance
        ('start: w{X}\n!w{t}: "(" t ")"\nX: "x"\n', 'start: w\n!w: "(" X ")"\nX: "x"\n', ['(x)'], 'lalr', {}),
        ('start: w{X} w{Y}\n?w{t}: t | "(" t t ")"\nX: "x"\nY: "y"\n', 'start: wx wy\n?wx: X | "(" X X ")"\n?wy: Y | "(" Y Y ")"\nX: "x"\nY: "y"\n', ['xy', '(xx)y', 'x(yy)'], 'lalr', {}),
    ]
    for g, hand, inputs, parser, opts in TS:
        evals += 1; distinct += 1
        try:
            p = Lark(g, parser=parser, **opts); q = Lark(hand, parser=parser, **opts)
        except Exception as e:
            note('template-instance', {'grammar': g}, 'construction raised %s: %s' % (type(e).__name__, str(e)[:100]), 'same as hand-written grammar'); continue
        a, b_ = behn(p, inputs, lambda n: strip(n)), behn(q, inputs, lambda n: _re.sub(r'(?<=[a-z])[xy]$', '', n) if n in ('wx', 'wy') else n)
        if a != b_:
            note('template-instance', {'grammar': g, 'hand_instantiated': hand, 'parser': parser}, a, b_)
    # an imported rule that uses a template of its own module, while the importing grammar has a template of the same name and arity
    for local in ('', '_sep{k, c}: k c k\n', 'pair: _sep{NUMBER, ":"}\n_sep{k, c}: k c k\n'):
        g = 'start: number_list%s\n%%import tl (number_list, NUMBER)\n%s' % (' | pair' if 'pair' in local else '', local)
        hand = 'start: number_list%s\nnumber_list: "[" NUMBER ("," NUMBER)* "]"\nNUMBER: /[0-9]+/\n%s' % (' | pair' if 'pair' in local else '', 'pair: NUMBER ":" NUMBER\n' if 'pair' in local else '')
        inputs = ['[1]', '[1,2,3]', '[1:2]', '1:2']
        evals += 1; distinct += 1
        for parser in ('lalr', 'earley'):
            try:
                p = Lark(g, import_paths=[d], parser=parser)
            except Exception as e:
                note('template-capture', {'grammar': g, 'lib': open(os.path.join(d, 'tl.lark')).read()}, 'construction raised %s: %s' % (type(e).__name__, str(e)[:120]), 'same as hand-written grammar'); continue
            q = Lark(hand, parser=parser)
            acc = lambda P: [('ok' if _ok(P, t) else 'rejected') for t in inputs]
            def _ok(P, t):
                try: P.parse(t); return True
                except Exception: return False
            if acc(p) != acc(q):
                note('template-capture', {'grammar': g, 'lib': open(os.path.join(d, 'tl.lark')).read(), 'parser': parser}, acc(p), acc(q))
    # nested imports: a module reached along two paths (directly and through another module / diamond): transitive dependencies keep the
    # prefixes of the whole import chain, so they neither clash nor capture
    open(os.path.join(d, 'numbers.lark'), 'w').write('num: sign DIGIT\nsign: "+" | "-"\nDIGIT: "0".."9"\n')
    open(os.path.join(d, 'bmod.lark'), 'w').write('%import numbers.num\nexpr: num "!"\n')
    open(os.path.join(d, 'dmod.lark'), 'w').write('%import numbers.num\nterm: num "?"\n')
    NEST = [('start: expr | "#" num\n%import bmod.expr\n%import numbers.num\n', 'start: expr | "#" num\nexpr: num2 "!"\nnum2: sign2 DIGIT\nsign2: "+" | "-"\nnum: sign DIGIT\nsign: "+" | "-"\nDIGIT: "0".."9"\n', ['+1!', '#-2', '-2', '1']),
            ('start: expr | "#" term\n%import bmod.expr\n%import dmod.term\n', 'start: expr | "#" term\nexpr: num "!"\nterm: num2 "?"\nnum: sign DIGIT\nnum2: sign DIGIT\nsign: "+" | "-"\nDIGIT: "0".."9"\n', ['+1!', '#-2?', '+3']),
            ('start: expr\n%import bmod.expr\n', 'start: expr\nexpr: num "!"\nnum: sign DIGIT\nsign: "+" | "-"\nDIGIT: "0".."9"\n', ['+1!', '1!'])]
    for g, hand, inputs in NEST:
        evals += 1; distinct += 1
        for parser in ('lalr', 'earley'):
            def _acc(P):
                out = []
                for t in inputs:
                    try: P.parse(t); out.append('ok')
                    except Exception as e: out.append('rejected')
                return out
            try:
                p = Lark(g, import_paths=[d], parser=parser)
            except Exception as e:
                note('nested-import', {'grammar': g, 'modules': {n: open(os.path.join(d, n)).read() for n in ('numbers.lark', 'bmod.lark', 'dmod.lark')}}, 'construction raised %s: %s' % (type(e).__name__, str(e)[:140]), 'loads like the hand-written grammar'); continue
            try:
                q = Lark(hand, parser=parser)
            except Exception as e:
                note('nested-import-oracle', {'hand': hand, 'parser': parser}, 'hand-written grammar does not load: %s' % str(e)[:100], 'loads'); continue
            if _acc(p) != _acc(q):
                note('nested-import', {'grammar': g, 'parser': parser}, _acc(p), _acc(q))
finally:
    shutil.rmtree(d, ignore_errors=True)
res = {'fails': bool(fails), 'evaluations': evals, 'distinct': distinct, 'failures': fails}
if fails: res.update(input=fails[0]['input'], observed=fails[0]['observed'], required=fails[0]['required'])
print(json.dumps(res, default=str))
