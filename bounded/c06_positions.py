"""Native cross-check / replay search for C06/C15 kernels: LineCounter.feed / advance_to / from_text_slice against the
definition of line/column over the whole buffer, and BasicLexer token coordinates via Lark.lex, for str and bytes and for
TextSlice windows.  Exhaustive over small texts.  argv: tier seed"""
import itertools, json, sys
from lark import Lark, TextSlice
from lark.lexer import LineCounter

tier = sys.argv[1] if len(sys.argv) > 1 else 'quick'
fail = None
evals = distinct = 0


def coords(text, pos, nl):
    line = 1 + text.count(nl, 0, pos)
    lsp = text.rfind(nl, 0, pos) + 1
    return line, lsp, pos - lsp + 1


def check_ctr(c, text, pos, nl, what, inp):
    global fail
    exp = coords(text, pos, nl)
    got = (c.line, c.line_start_pos, c.column)
    if c.char_pos != pos or got != exp:
        fail = fail or {'key': what, 'input': inp, 'observed': {'char_pos': c.char_pos, 'line,line_start_pos,column': got},
                        'required': {'char_pos': pos, 'line,line_start_pos,column': exp}}


maxlen = 5 if tier == 'quick' else 7
for kind in ('str', 'bytes'):
    nl = '\n' if kind == 'str' else b'\n'
    alpha = ['a', '\n'] if kind == 'str' else [b'a', b'\n']
    for n in range(0, maxlen + 1):
        for chars in itertools.product(alpha, repeat=n):
            text = (''.join(chars) if kind == 'str' else b''.join(chars))
            for a in range(0, n + 1):
                # advance_to from 0 to a, then feed text[a:b]
                for b in range(a, n + 1):
                    evals += 1
                    distinct += 1 if n >= 2 else 0
                    c = LineCounter(nl)
                    try:
                        c.advance_to(text, a)
                        check_ctr(c, text, a, nl, 'advance_to', {'text': repr(text), 'pos': a})
                        c.feed(text[a:b])
                        check_ctr(c, text, b, nl, 'feed', {'text': repr(text), 'char_pos': a, 'token': repr(text[a:b])})
                        c.advance_to(text, n)
                        check_ctr(c, text, n, nl, 'advance_to', {'text': repr(text), 'from': b, 'pos': n})
                        c2 = LineCounter.from_text_slice(TextSlice(text, a, b))
                        check_ctr(c2, text, a, nl, 'from_text_slice', {'text': repr(text), 'start': a, 'end': b})
                    except BaseException as e:
                        fail = fail or {'key': 'linecounter', 'input': {'text': repr(text), 'a': a, 'b': b}, 'observed': 'raised %r' % (e,), 'required': 'no exception'}
                if fail: break
            if fail: break
        if fail: break
    if fail: break

# BasicLexer / ContextualLexer token coordinates through the public API
GRAMMARS = [
    ('start: (A|B|NL)*\nA: "a"\nB: /b+/\nNL: /\\n+/\n%ignore " "', 'ab \n'),
    ('start: (W|C)*\nW: /[ab]+/\nC: /#[^\\n]*/\n%ignore /\\s+/', 'ab# \n'),
    ('start: (A|S)*\nA: "a"\nS: /"(.|\\n)*?"/\n%ignore /[ \\n]/', 'a" \n'),
]
if not fail:
    L = 4 if tier == 'quick' else 6
    for g, alpha in GRAMMARS:
        for use_bytes in (False, True):
            for lexer in ('basic', 'contextual'):
                p = Lark(g, parser='lalr', lexer=lexer, use_bytes=use_bytes)
                for n in range(0, L + 1):
                    for chars in itertools.product(alpha, repeat=n):
                        s = ''.join(chars)
                        text = s.encode('ascii') if use_bytes else s
                        nl = b'\n' if use_bytes else '\n'
                        for (a, b) in ((0, n), (1, n), (1, n - 1)):
                            if a > b or a < 0 or (a, b) != (0, n) and n < 2: continue
                            evals += 1; distinct += 1
                            inp = TextSlice(text, a, b) if (a, b) != (0, n) else text
                            try:
                                toks = list(p.lex(inp))
                            except Exception as e:
                                continue          # rejection is not this kernel's business
                            prev_end = a
                            for t in toks:
                                ok = (text[t.start_pos:t.end_pos] == t.value and len(t.value) >= 1 and t.start_pos >= prev_end and t.end_pos <= b
                                      and (t.line, t.column) == (coords(text, t.start_pos, nl)[0], coords(text, t.start_pos, nl)[2])
                                      and (t.end_line, t.end_column) == (coords(text, t.end_pos, nl)[0], coords(text, t.end_pos, nl)[2]))
                                prev_end = t.end_pos
                                if not ok:
                                    fail = fail or {'key': 'next_token', 'input': {'grammar': g, 'lexer': lexer, 'text': repr(text), 'window': [a, b]},
                                                    'observed': {'type': t.type, 'value': repr(t.value), 'start_pos': t.start_pos, 'end_pos': t.end_pos, 'line': t.line,
                                                                 'column': t.column, 'end_line': t.end_line, 'end_column': t.end_column},
                                                    'required': 'text[start_pos:end_pos] == value; line/column/end_line/end_column = coordinates of start_pos/end_pos in the whole buffer'}
                            if fail: break
                        if fail: break
                    if fail: break
                if fail: break
            if fail: break
        if fail: break
res = {'fails': bool(fail), 'evaluations': evals, 'distinct': distinct, 'exhaustive': True, 'failures': [fail] if fail else []}
if fail: res.update(input=fail['input'], observed=fail['observed'], required=fail['required'])
print(json.dumps(res))
