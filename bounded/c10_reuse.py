"""Bounded stand-in / replay search for C10: the outcome of a call on a Lark instance depends only on grammar, options and the text of
that call - not on earlier calls (successful, failed, abandoned), other instances, or concurrent calls. argv: tier seed [--child X]"""
import itertools, json, os, subprocess, sys, threading
from lark import Lark, Tree, Token
from lark.indenter import Indenter
from lark.exceptions import UnexpectedInput

tier = sys.argv[1] if len(sys.argv) > 1 else 'quick'


class TreeIndenter(Indenter):
    NL_type = '_NL'; OPEN_PAREN_types = ['LPAR']; CLOSE_PAREN_types = ['RPAR']; INDENT_type = '_INDENT'; DEDENT_type = '_DEDENT'; tab_len = 8

IND_G = r'''
?start: _NL* tree
tree: NAME ["(" NAME ")"] _NL [_INDENT tree+ _DEDENT]
NAME: /\w+/
LPAR: "("
RPAR: ")"
_NL: /(\r?\n[\t ]*)+/
%ignore " "
%declare _INDENT _DEDENT
'''
MERGED_G = 'start: "a" x "d" | "b" x "e"\nx: "c"'
EXPR_G = 'start: item+\nitem: NAME "=" NUM ";" | "(" item+ ")"\nNAME: /[a-z]+/\nNUM: /[0-9]+/\n%ignore /\\s+/'


def norm(t):
    if isinstance(t, Tree): return (str(t.data), [norm(c) for c in t.children])
    if isinstance(t, Token): return (str(t.type), str(t), t.line, t.column)
    return repr(t)


def call(p, kind, text):
    try:
        if kind == 'parse': return ('ok', norm(p.parse(text)))
        if kind == 'lex': return ('ok', [norm(t) for t in p.lex(text)])
        if kind == 'lex-abandoned':
            it = p.lex(text); next(it, None); next(it, None); return ('ok', None)
        if kind == 'interactive-abandoned':
            ip = p.parse_interactive(text); it = ip.iter_parse(); next(it, None); next(it, None); return ('ok', None)
        if kind == 'scan': return ('ok', [(tuple(m.range), norm(m.value)) for m in p.scan(text)])
        if kind == 'interactive-accepts':
            ip = p.parse_interactive(text)
            try: ip.exhaust_lexer()
            except UnexpectedInput: pass
            return ('ok', sorted(ip.accepts()))
    except UnexpectedInput as e:
        # what the error reports about possible continuations (and hence its message) belongs to the outcome
        sets = tuple(sorted(x) if x is not None else None for x in (getattr(e, 'accepts', None), getattr(e, 'expected', None), getattr(e, 'allowed', None)))
        return ('err', type(e).__name__, getattr(e, 'line', None), getattr(e, 'column', None), sets, str(e))
    except Exception as e:
        return ('raised', type(e).__name__, str(e)[:60])

CONFIGS = [
    ('lalr-basic', lambda: Lark(EXPR_G, parser='lalr', lexer='basic'), ['a=1;', 'a=1; (b=2;)', 'a=;', '(a=1', 'a=1; $'], True),
    ('lalr-contextual', lambda: Lark(EXPR_G, parser='lalr', lexer='contextual'), ['a=1;', '(a=1;(b=2;))', 'a=;', '(a=1'], True),
    ('earley-basic', lambda: Lark(EXPR_G, parser='earley', lexer='basic'), ['a=1;', 'a=;', '(a=1'], False),
    ('earley-dynamic', lambda: Lark(EXPR_G, parser='earley', lexer='dynamic'), ['a=1;', 'a=;', '(a=1;)'], False),
    ('cyk', lambda: Lark(EXPR_G, parser='cyk'), ['a=1;', 'a=;'], False),
    # one LALR state (after x) reached with two different stacks: what is acceptable there depends on the stack below
    ('lalr-merged-state', lambda: Lark(MERGED_G, parser='lalr'), ['acd', 'bce', 'acc', 'bcc', 'ac', 'bc', 'ace', 'bcd'], True),
    ('lalr-indenter', lambda: Lark(IND_G, parser='lalr', postlex=TreeIndenter()), ['a\n  b\n  c\n', 'a(x)\n  b\n', 'a(\n  b\n', 'a(x y)\n', 'a\n    b\n  c\n', 'a\n  b(\n'], True),
]


def histories():
    fails, evals = [], 0
    H = 3 if tier == 'quick' else 4
    for name, make, texts, lalr in CONFIGS:
        kinds = ['parse', 'lex', 'lex-abandoned'] + (['interactive-abandoned', 'interactive-accepts'] if lalr else []) + (['scan'] if lalr and 'indenter' not in name else [])
        ops = [(k, t) for k in kinds for t in texts]
        fresh = {}
        for op in ops:
            fresh[op] = call(make(), *op)
        import random
        rnd = random.Random(int(sys.argv[2]) if len(sys.argv) > 2 else 0)
        seqs = list(itertools.product(range(len(ops)), repeat=2)) + [tuple(rnd.randrange(len(ops)) for _ in range(H)) for _ in range(60)]
        if len(seqs) > 400: seqs = rnd.sample(seqs, 400)
        for seq in seqs:
            p = make()
            for i in seq[:-1]:
                call(p, *ops[i])
            evals += 1
            got = call(p, *ops[seq[-1]])
            if got != fresh[ops[seq[-1]]] and ops[seq[-1]][0] in ('parse', 'lex', 'scan', 'interactive-accepts'):
                fails.append({'key': 'history', 'input': {'config': name, 'earlier_calls': [ops[i] for i in seq[:-1]], 'call': ops[seq[-1]]}, 'observed': got, 'required': fresh[ops[seq[-1]]]})
                break
    return fails, evals


def flags_child(which):
    # the same regexp TEXT under different flags has a different width (verbose mode ignores the blank), which decides the terminal order
    ga = 'start: T1+\nT1: /a b/x' if which == 'A' else 'start: (T1|T2|B)+\nT1: /a b/\nT2: /a ?|ab/\nB: "b"'
    p = Lark(ga, parser='lalr', lexer='basic')
    return [call(p, 'lex', t) for t in ('ab', 'a b', 'aba b')]


def other_instances():
    """two instances whose terminals have the same regexp text under different flags, in both creation orders"""
    fails, evals = [], 0
    me = os.path.join(os.environ.get('VERIF_HOME', '/verif'), 'bounded', 'c10_reuse.py')
    ref = {}
    for w in ('A', 'B'):
        p = subprocess.run([sys.executable, me, tier, '0', '--child', w], capture_output=True, text=True)
        ref[w] = json.loads([l for l in p.stdout.splitlines() if l.startswith('[')][-1])
    for order in (('A', 'B'), ('B', 'A')):
        p = subprocess.run([sys.executable, me, tier, '0', '--child', ''.join(order)], capture_output=True, text=True)
        got = json.loads([l for l in p.stdout.splitlines() if l.startswith('{')][-1])
        evals += 2
        for w in order:
            if got[w] != ref[w]:
                fails.append({'key': 'other-instances', 'input': {'created_in_order': order, 'instance': w}, 'observed': got[w], 'required': ref[w]})
    return fails, evals


def grammar_object():
    """several instances built from ONE lark.load_grammar.Grammar object (Lark accepts it in place of the text) under different priority
    modes: each behaves like the instance built from the text, whatever was built before or after it"""
    from lark.load_grammar import load_grammar
    fails, evals = [], 0
    text = 'start: a | b\na.1: "x"\nb.2: "x"\n'
    ref = {m: call(Lark(text, parser='earley', priority=m), 'parse', 'x') for m in ('normal', 'invert', None)}
    for order in itertools.product(('normal', 'invert', None), repeat=3):
        g = load_grammar(text, '<string>', [], False)[0]
        built = []
        for m in order:
            built.append((m, Lark(g, parser='earley', priority=m)))
            for m2, inst in built:          # every instance built so far, again after each construction
                evals += 1
                got = call(inst, 'parse', 'x')
                if got != ref[m2] and not fails:
                    fails.append({'key': 'grammar-object', 'input': {'grammar': text, 'priority_modes_built_in_order': list(order[:len(built)]), 'instance': m2, 'text': 'x'},
                                  'observed': got, 'required': ref[m2]})
    return fails, evals


def threads():
    fails, evals = [], 0
    N, R = (8, 40) if tier == 'quick' else (16, 100)
    for name, make, texts, lalr in [c for c in CONFIGS if c[0] in ('lalr-basic', 'lalr-contextual', 'earley-dynamic')]:
        g = 'start: (IF|NAME)+\nIF: "if"\nNAME: /[a-z]+/\n%ignore " "'
        for mk, inputs in ((make, texts), (lambda: Lark(g, parser='lalr', lexer='basic' if 'basic' in name else 'contextual'), ['if x', 'x if', 'iff'])):
            exp = {t: call(mk(), 'parse', t) for t in inputs}
            for rep in range(6):
                p = mk()                       # fresh instance: the lazily built scanners are built under contention
                bad = []
                bar = threading.Barrier(N)
                def work():
                    bar.wait()
                    for i in range(R):
                        t = inputs[i % len(inputs)]
                        r = call(p, 'parse', t)
                        if r != exp[t]: bad.append((t, r))
                ths = [threading.Thread(target=work) for _ in range(N)]
                [t.start() for t in ths]; [t.join() for t in ths]
                evals += N * R
                if bad:
                    fails.append({'key': 'threads', 'input': {'config': name, 'threads': N, 'text': bad[0][0]}, 'observed': bad[0][1], 'required': exp[bad[0][0]]})
                    break
    return fails, evals

if '--child' in sys.argv:
    w = sys.argv[sys.argv.index('--child') + 1]
    if len(w) == 1:
        print(json.dumps(flags_child(w)))
    else:
        out = {}
        for x in w: out[x] = flags_child(x)
        print(json.dumps(out))
    sys.exit(0)

fails, evals = [], 0
for part in (histories, other_instances, grammar_object, threads):
    f, e = part()
    fails += f; evals += e
res = {'fails': bool(fails), 'evaluations': evals, 'distinct': evals, 'failures': fails[:5]}
if fails: res.update(input=fails[0]['input'], observed=fails[0]['observed'], required=fails[0]['required'])
print(json.dumps(res, default=str))
