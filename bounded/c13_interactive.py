"""Native cross-check / replay search for C13 (and the C02/C08 driver): forks of an InteractiveParser are independent, accepts()
is exactly the set of feedable terminals, feeding tokens + feed_eof equals parse(), resume_parse continues with the fork's own input.
argv: tier seed"""
import json, sys, copy as _copy
from lark import Lark, Token
from lark.exceptions import UnexpectedInput, UnexpectedToken

tier = sys.argv[1] if len(sys.argv) > 1 else 'quick'
GRAMMARS = [
    ('start: item*\nitem: A B | A C D | "(" item* ")"\nA: "a"\nB: "b"\nC: "c"\nD: "d"\n%ignore " "', ['ab', 'acd', '(ab)acd', 'a', 'ab(', 'abacd(acd)ab']),
    ('start: expr\n?expr: term | expr "+" term\n?term: NUM | "(" expr ")"\nNUM: /[0-9]+/\n%ignore " "', ['1+2', '(1+2)+3', '1+', '((1))', '1+2+3+4']),
    ('start: _list\n_list: X | _list "," X\nX: "x"', ['x', 'x,x', 'x,x,x,x', 'x,']),
    ('start: a* b?\na: "a" ";"\nb: "b"', ['a;a;b', 'b', 'a;', '']),
    ('start: (k X)*\nk: "\u4e2d" | "\u00df"\nX: "x"', ['\u4e2dx', '\u4e2dx\u00dfx', '\u4e2d']),       # anonymous terminals named after characters without case
    # an inlined rule that can be empty sits on the value stack as a childless node: forks must not share its (empty) children list
    ('start: _items\n_items: | _items item\nitem: A | B\nA: "a"\nB: "b"', ['ab', 'aab', 'b', '']),
    ('start: decl+\ndecl: _mods NAME ";"\n_mods: MOD*\nMOD: "m"\nNAME: /[x-z]/', ['mx;y;', 'x;mmy;']),
]
fail = None
evals = distinct = 0


def tree_of(p, text):
    try:
        return ('ok', p.parse(text))
    except UnexpectedInput as e:
        return ('err', type(e).__name__, getattr(e, 'pos_in_stream', None))


fails = []


def note(key, inp, obs, req):
    global fail
    if not any(f['key'] == key for f in fails):
        fails.append({'key': key, 'input': inp, 'observed': obs, 'required': req})
    fail = fails[0]


for g, texts in GRAMMARS:
    for lexer in ('basic', 'contextual'):
        p = Lark(g, parser='lalr', lexer=lexer)
        terminals = [t.name for t in p.terminals] + ['$END']
        for text in texts:
            try:
                toks = list(p.lex(text))
            except UnexpectedInput:
                continue
            whole = tree_of(p, text)
            # 1. feed tokens one by one: accepts() exact at every point; forks independent
            ip = p.parse_interactive(text)
            forks = []
            ok = True
            for i, tok in enumerate(toks):
                evals += 1; distinct += 1
                acc = ip.accepts()
                for t in terminals:
                    if t == '$END':
                        continue
                    trial = ip.copy()
                    try:
                        trial.feed_token(Token(t, ''))
                        can = True
                    except UnexpectedToken:
                        can = False
                    if can != (t in acc):
                        # a terminal whose name has no cased character is invisible to accepts() (it tests name.isupper()): its own class
                        note('accepts' if t.isupper() else 'accepts-noncased-terminal', {'grammar': g, 'text': text, 'fed': i, 'terminal': t}, {'in accepts': t in acc}, {'feedable': can})
                if not acc <= set(ip.choices()):
                    note('accepts', {'grammar': g, 'text': text, 'fed': i}, sorted(acc), 'subset of choices()')
                # fork: a copy resumed to the end must give what the whole parse gives, and must not disturb ip
                before = (list(ip.parser_state.state_stack), len(ip.parser_state.value_stack), ip.lexer_thread.state.line_ctr.char_pos)
                f = ip.copy()
                if f.parser_state.lexer is not f.lexer_thread:
                    note('copy', {'grammar': g, 'text': text, 'fed': i}, 'fork.parser_state.lexer is not fork.lexer_thread', 'the fork reads its own lexer thread')
                im = ip.as_immutable()
                try:
                    r = ('ok', f.resume_parse())
                except UnexpectedInput as e:
                    r = ('err', type(e).__name__, getattr(e, 'pos_in_stream', None))
                after = (list(ip.parser_state.state_stack), len(ip.parser_state.value_stack), ip.lexer_thread.state.line_ctr.char_pos)
                if before != after:
                    note('fork-independence', {'grammar': g, 'text': text, 'fed': i}, {'original after fork.resume_parse()': after}, {'unchanged': before})
                if i == 0 and r[0] == 'ok' and whole[0] == 'ok' and r[1] != whole[1]:
                    note('resume', {'grammar': g, 'text': text}, str(r[1]), str(whole[1]))
                try:
                    nxt = next(iter(ip.lexer_thread.lex(ip.parser_state)))
                except StopIteration:
                    break
                except UnexpectedInput:
                    ok = False; break
                try:
                    im2 = im.feed_token(nxt)
                    if list(im.parser_state.state_stack) != before[0]:
                        note('immutable', {'grammar': g, 'text': text, 'fed': i}, 'ImmutableInteractiveParser.feed_token changed the receiver', 'receiver unchanged')
                    ip.feed_token(nxt)
                    if list(im2.parser_state.state_stack) != list(ip.parser_state.state_stack):
                        note('immutable', {'grammar': g, 'text': text, 'fed': i}, list(im2.parser_state.state_stack), list(ip.parser_state.state_stack))
                except UnexpectedToken:
                    ok = False; break
            if ok and not any(f_['key'] != 'accepts-noncased-terminal' for f_ in fails):
                try:
                    res = ('ok', ip.feed_eof())
                except UnexpectedInput as e:
                    res = ('err', type(e).__name__, None)
                if res[0] != whole[0] or (res[0] == 'ok' and res[1] != whole[1]):
                    note('feed-equals-parse', {'grammar': g, 'text': text, 'lexer': lexer}, str(res)[:200], str(whole)[:200])
            if any(f['key'] != 'accepts-noncased-terminal' for f in fails): break
        if any(f['key'] != 'accepts-noncased-terminal' for f in fails): break
    if any(f['key'] != 'accepts-noncased-terminal' for f in fails): break
# resume from an error state: parse(text, on_error=skip the offending token) must equal parse(text without that token)
RES = [('start: "x" _items "b"\n_items: A | _items A\nA: "a"\nC: "c"\n%ignore C', None),
       ('start: "x" _items "b"\n_items: A | _items A\nA: "a"\nC: "c"', ['xaacb', 'xacab', 'xaaacb', 'xcab', 'xaab']),
       # merged LALR look-aheads: the wrong closer is rejected only after the reduction _items -> _items A has run
       ('start: X _items B | Y _items K\n_items: _items A | A\nX: "x"\nY: "y"\nA: "a"\nB: "b"\nK: "k"\nC: "c"\nJ: "j"',
        ['xaakb', 'xakab', 'yaabk', 'xaaakkab', 'yabak', 'xakb']),
       ('start: item+\nitem: "(" _l ")"\n_l: N | _l "," N\nN: /[0-9]/\nJ: "j"', ['(1,2j)', '(1,2,3j)(4)', '(1j,2)', '(j1)'])]
if not fail:
    for g, texts in RES:
        if texts is None: continue
        p = Lark(g, parser='lalr')
        for text in texts:
            evals += 1; distinct += 1
            bad = []
            def on_error(e):
                if isinstance(e, UnexpectedToken) and e.token.type in ('C', 'J', 'K', 'B') and e.token.type != '$END':
                    bad.append(e.token.start_pos)
                    return True
                return False
            try:
                got = ('ok', p.parse(text, on_error=on_error))
            except UnexpectedInput as e:
                got = ('err', type(e).__name__)
            cleaned = ''.join(ch for i, ch in enumerate(text) if i not in bad)
            exp = tree_of(p, cleaned)
            if got[0] == 'ok' and exp[0] == 'ok' and got[1] != exp[1]:
                note('resume-after-error', {'grammar': g, 'text': text}, str(got[1]), 'parse(%r) = %s' % (cleaned, exp[1]))
# a token rejected in the middle of a reduction chain (LALR-merged look-ahead): the error state, resumed or forked, continues like a parse
# of the input without the rejected token.  The inlined left-recursive rule extends its first child's list in place, so anything that
# re-runs or rewinds reductions shows up as duplicated or missing children.
GM = 'start: X _items B | Y _items C\n_items: _items A | A\nX: "x"\nY: "y"\nA: "a"\nB: "b"\nC: "c"'
pm = Lark(GM, parser='lalr')
skip = lambda e: isinstance(e, UnexpectedToken) and e.token.type != '$END'
for opener, closer, wrong in (('x', 'b', 'c'), ('y', 'c', 'b')):
    for n in range(1, 5):
        good = opener + 'a' * n + closer
        exp = pm.parse(good)
        for k in range(1, n + 1):
            bad = opener + 'a' * k + wrong + 'a' * (n - k) + closer
            evals += 1; distinct += 1
            try:
                got = pm.parse(bad, on_error=skip)
            except Exception as e:
                got = 'raised %s' % type(e).__name__
            if got != exp:
                note('resume-mid-reduction', {'grammar': GM, 'text': bad, 'on_error': 'skip the rejected token'}, str(got), 'parse(%r) = %s' % (good, exp))
        # fork taken at the error state, and the original, both continue independently to the right result
        ip = pm.parse_interactive()
        for ch in opener + 'a' * n:
            ip.feed_token(Token(ch.upper(), ch))
        try:
            ip.feed_token(Token(wrong.upper(), wrong)); rejected = False
        except UnexpectedToken:
            rejected = True
        if rejected:
            evals += 1
            fork = ip.copy()
            res = []
            for p_ in (fork, ip):
                try:
                    p_.feed_token(Token(closer.upper(), closer)); res.append(p_.feed_eof())
                except Exception as e:
                    res.append('raised %s' % type(e).__name__)
            if res != [exp, exp]:
                note('fork-at-error-state', {'grammar': GM, 'fed': opener + 'a' * n, 'rejected': wrong, 'then': closer}, [str(r) for r in res], str(exp))
res = {'fails': bool(fails), 'evaluations': evals, 'distinct': distinct, 'failures': fails}
if fail: res.update(input=fail['input'], observed=fail['observed'], required=fail['required'])
print(json.dumps(res, default=str))
