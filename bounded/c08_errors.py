"""Bounded stand-in for the error-reporting clauses of C08 outside the deductive kernels: on rejection the exception is an
UnexpectedInput at the first position where the prefix cannot be extended to a sentence; expected/allowed sets in the stated
direction (dynamic Earley: exact; Earley+basic: superset; LALR: accepts subset of expected); $END carries the last token's
coordinates.  Oracle: an independent memoised recogniser over single-character terminals.  argv: tier seed"""
import functools, itertools, json, sys
from lark import Lark, Token
from lark.lexer import Lexer
from lark.exceptions import UnexpectedInput, UnexpectedCharacters, UnexpectedToken, UnexpectedEOF

tier = sys.argv[1] if len(sys.argv) > 1 else 'quick'
fails = []
evals = distinct = 0


def note(key, inp, obs, req):
    if not any(f['key'] == key for f in fails):
        fails.append({'key': key, 'input': inp, 'observed': obs, 'required': req})

# grammars as {nonterminal: [rhs tuples]}, terminals are single lower-case characters named by their upper-case letter
GS = [
    {'start': [('A', 'start', 'B'), ('C',)]},
    {'start': [('item', 'start'), ('item',)], 'item': [('A', 'B'), ('A', 'C', 'B')]},
    {'start': [('opt', 'A'), ('B', 'opt')], 'opt': [(), ('C',)]},
    {'start': [('start', 'A'), ('B',), ('start', 'C', 'B')]},
    {'start': [('x', 'x')], 'x': [('A',), ('A', 'x'), ('B', 'C')]},
    # a nullable nonterminal, then a terminal, then a nonterminal: what follows the terminal must not be predicted before it is seen
    {'start': [('mods', 'A', 'body')], 'mods': [(), ('B',)], 'body': [('C', 'C'), ('C', 'body2')], 'body2': [('B', 'A')]},
    {'start': [('n', 'n', 'B', 'tail'), ('C',)], 'n': [(), ('A',)], 'tail': [('C',), ('A', 'tail')]},
]
ALPHA = 'abc'


def make_recogniser(g):
    def sent(sym, s):
        if sym.isupper(): return s == sym.lower()
        return any(seq(tuple(r), s) for r in g[sym])
    memo = {}
    def seq(rhs, s):
        k = (rhs, s)
        if k in memo: return memo[k]
        memo[k] = False          # cut left recursion on the same span
        if not rhs:
            r = s == ''
        elif len(rhs) == 1:
            r = sent(rhs[0], s)
        else:
            r = any(sent(rhs[0], s[:i]) and seq(rhs[1:], s[i:]) for i in range(0, len(s) + 1))
        memo[k] = r
        return r
    return lambda s: sent('start', s)


def to_lark(g):
    lines = ['%s: %s' % (n, ' | '.join(' '.join(r) for r in alts)) for n, alts in g.items()]
    return '\n'.join(lines) + '\nA: "a"\nB: "b"\nC: "c"\n'

L = 4 if tier == 'quick' else 5
K = L + 2      # extension length explored to decide viability: the longest minimal completion of a prefix of length L in these grammars is L + 1 (a^n -> c b^n)
for g in GS:
    rec = make_recogniser(g)
    sentences = {''.join(w) for n in range(0, L + K + 1) for w in itertools.product(ALPHA, repeat=n)} if False else None
    @functools.lru_cache(maxsize=None)
    def viable(prefix):
        return any(rec(prefix + ''.join(z)) for n in range(0, K + 1) for z in itertools.product(ALPHA, repeat=n))
    text = to_lark(g)
    engines = {(p, l): Lark(text, parser=p, lexer=l) for p, l in (('earley', 'basic'), ('earley', 'dynamic'), ('earley', 'dynamic_complete'), ('lalr', 'basic'), ('lalr', 'contextual'))}
    for n in range(0, L + 1):
        for w in itertools.product(ALPHA, repeat=n):
            s = ''.join(w)
            ok = rec(s)
            first_bad = next((i for i in range(len(s)) if not viable(s[:i + 1])), None)
            exact = None if first_bad is None else {c.upper() for c in ALPHA if viable(s[:first_bad] + c)}
            for (p, l), lark in engines.items():
                if p == 'lalr':
                    try:
                        Lark(text, parser='lalr')       # skip grammars that are not LALR(1)
                    except Exception:
                        continue
                evals += 1; distinct += 1
                try:
                    lark.parse(s); got = None
                except UnexpectedInput as e:
                    got = e
                except Exception as e:
                    note('foreign-exception', {'grammar': text, 'text': s, 'engine': '%s/%s' % (p, l)}, repr(e), 'a subclass of UnexpectedInput'); continue
                if ok != (got is None):
                    if p == 'earley':
                        note('language', {'grammar': text, 'text': s, 'engine': '%s/%s' % (p, l)}, 'accepted' if got is None else type(got).__name__, 'sentence' if ok else 'not a sentence')
                    continue
                if ok: continue
                if first_bad is None:
                    # proper prefix of a sentence: UnexpectedEOF, or an unexpected $END at the last token
                    good = isinstance(got, UnexpectedEOF) or (isinstance(got, UnexpectedToken) and got.token.type == '$END')
                    if not good:
                        note('eof-class', {'grammar': text, 'text': s, 'engine': '%s/%s' % (p, l)}, type(got).__name__, 'UnexpectedEOF or UnexpectedToken($END)')
                    elif isinstance(got, UnexpectedToken) and s and (got.token.start_pos, got.token.line) not in ((len(s) - 1, 1),):
                        note('eof-coordinates', {'grammar': text, 'text': s, 'engine': '%s/%s' % (p, l)}, [got.token.start_pos, got.token.line, got.token.column], 'coordinates of the last token (start_pos %d)' % (len(s) - 1))
                    continue
                pos = got.pos_in_stream if isinstance(got, UnexpectedCharacters) else (got.token.start_pos if isinstance(got, UnexpectedToken) else None)
                if pos != first_bad:
                    note('error-position', {'grammar': text, 'text': s, 'engine': '%s/%s' % (p, l)}, {'class': type(got).__name__, 'position': pos}, {'first position that cannot be extended to a sentence': first_bad})
                    continue
                rep = set(got.allowed) if isinstance(got, UnexpectedCharacters) and got.allowed else (set(got.expected) if isinstance(got, UnexpectedToken) else None)
                if rep is None: continue
                rep = {r for r in rep if r in ('A', 'B', 'C')}
                if l in ('dynamic', 'dynamic_complete') and rep != exact:
                    note('expected-exact', {'grammar': text, 'text': s, 'engine': '%s/%s' % (p, l)}, sorted(rep), sorted(exact))
                if (p, l) == ('earley', 'basic') and not exact <= rep:
                    note('expected-superset', {'grammar': text, 'text': s, 'engine': '%s/%s' % (p, l)}, sorted(rep), 'contains ' + str(sorted(exact)))
                if p == 'lalr' and isinstance(got, UnexpectedToken):
                    acc = {a for a in got.accepts if a in ('A', 'B', 'C')}
                    if not (acc <= exact and acc <= rep):
                        note('accepts-sound', {'grammar': text, 'text': s, 'engine': '%s/%s' % (p, l)}, sorted(acc), 'subset of legal continuations %s and of expected %s' % (sorted(exact), sorted(rep)))
        if len(fails) >= 3: break

# multi-character tokens and %ignore: every lexer family must agree on the error class family and position
G2 = 'start: STR X\nSTR: /"[^"]*"/\nX: "x"\n%ignore " "'
for s in ['"a b" y', '"ab" y', '"a b" x y', '"a  b"  y', '"a b"']:
    res = {}
    for p, l in (('earley', 'basic'), ('earley', 'dynamic'), ('earley', 'dynamic_complete'), ('lalr', 'basic')):
        evals += 1
        try:
            Lark(G2, parser=p, lexer=l).parse(s); res[(p, l)] = None
        except UnexpectedInput as e:
            eof = isinstance(e, UnexpectedEOF) or (isinstance(e, UnexpectedToken) and e.token.type == '$END')
            res[(p, l)] = ('eof',) if eof else ('at', e.pos_in_stream if isinstance(e, UnexpectedCharacters) else e.token.start_pos)
        except Exception as e:
            res[(p, l)] = ('raised', type(e).__name__)
    ref = res[('earley', 'basic')]
    for k, v in res.items():
        if v != ref:
            note('lexers-agree-on-error', {'grammar': G2, 'text': s, 'engine': '%s/%s' % k}, v, ref)


# a user-supplied lexer: $END still borrows the coordinates of the last token fed
class MyLexer(Lexer):
    def __init__(self, conf): pass
    def lex(self, data):
        pos, line, col = 0, 1, 1
        for ch in data:
            if ch == '\n': line += 1; col = 1; pos += 1; continue
            if ch != ' ':
                yield Token({'a': 'A', '=': 'EQ', ';': 'SEMI'}.get(ch, 'A'), ch, pos, line, col, line, col + 1, pos + 1)
            pos += 1; col += 1
G3 = 'start: stmt+\nstmt: A EQ A SEMI\n%declare A EQ SEMI'
evals += 1
try:
    Lark(G3, parser='lalr', lexer=MyLexer).parse('a = a ;\na = a')
    note('custom-lexer-eof', {'grammar': G3}, 'accepted', 'UnexpectedToken($END)')
except UnexpectedToken as e:
    if (e.token.type, e.token.start_pos, e.token.line, e.token.column) != ('$END', 12, 2, 5):
        note('eof-coordinates', {'grammar': G3, 'text': 'a = a ;\\na = a', 'engine': 'lalr/custom lexer'}, [e.token.type, e.token.start_pos, e.token.line, e.token.column], ['$END', 12, 2, 5])
except Exception as e:
    note('custom-lexer-eof', {'grammar': G3}, repr(e), 'UnexpectedToken($END)')

# keywords folded into a regexp terminal: the reported sets still name them (LALR, both lexers); accepts is a subset of expected
G4 = 'start: "if" NAME | NAME "x" | "1" "2" | "do"+\nNAME: /[a-z]+/\n%ignore " "'
for l in ('basic', 'contextual'):
    p4 = Lark(G4, parser='lalr', lexer=l)
    for s in ['2', '?', 'if 1', 'a 2', 'if ?', '1 ?', '1 if', 'a x x', 'do 1', 'do do ?', 'do x']:
        evals += 1
        try:
            p4.parse(s); continue
        except UnexpectedToken as e:
            acc, rep = set(e.accepts), set(e.expected)
            if not (acc - {'$END'}) <= rep:
                note('accepts-in-expected', {'grammar': G4, 'text': s, 'engine': 'lalr/' + l}, {'accepts': sorted(acc), 'expected': sorted(rep)}, 'accepts is a subset of expected')
            elif '$END' in acc and '$END' not in rep:
                note('accepts-end-in-expected', {'grammar': G4, 'text': s, 'engine': 'lalr/' + l}, {'accepts': sorted(acc), 'expected': sorted(rep)}, 'accepts is a subset of expected ($END included)')
        except UnexpectedCharacters as e:
            # every terminal the parser could take next is named as allowed
            ip = p4.parse_interactive(s[:e.pos_in_stream])
            try:
                ip.exhaust_lexer()
                legal = {a for a in ip.accepts() if a != '$END'}
            except UnexpectedInput:
                continue
            if not legal <= set(e.allowed):
                note('allowed-complete', {'grammar': G4, 'text': s, 'engine': 'lalr/' + l}, sorted(e.allowed), 'contains ' + str(sorted(legal)))
        except UnexpectedInput:
            pass
res = {'fails': bool(fails), 'evaluations': evals, 'distinct': distinct, 'failures': fails}
if fails: res.update(input=fails[0]['input'], observed=fails[0]['observed'], required=fails[0]['required'])
print(json.dumps(res, default=str))
