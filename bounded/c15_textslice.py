"""Native cross-check for the C15 kernel: TextSlice index normalisation and delegation, exhaustively on small buffers. argv: tier seed"""
import itertools, json, sys
from lark import TextSlice
tier = sys.argv[1] if len(sys.argv) > 1 else 'quick'
fail = None
evals = distinct = 0
maxlen = 5 if tier == 'quick' else 7
for kind in (str, bytes):
    a, nl = ('a', '\n') if kind is str else (b'a', b'\n')
    for n in range(0, maxlen + 1):
        for chars in itertools.product([a, nl], repeat=n):
            text = (a[:0]).join(chars)
            for start in range(-n - 1, n + 2):
                for end in list(range(-n - 1, n + 2)) + [None]:
                    evals += 1; distinct += 1
                    try:
                        ts = TextSlice(text, start, end)
                    except AssertionError:
                        ok = start < -n or (end is not None and end < 0 and end + n > n)
                        if not ok:
                            fail = fail or {'key': '__post_init__', 'input': {'text': repr(text), 'start': start, 'end': end}, 'observed': 'AssertionError', 'required': 'no error for in-range indices'}
                        continue
                    es = start if start >= 0 else start + n
                    ee = n if end is None else (end if end >= 0 else end + n)
                    if (ts.start, ts.end) != (es, ee) or ts.text is not text:
                        fail = fail or {'key': '__post_init__', 'input': {'text': repr(text), 'start': start, 'end': end}, 'observed': [ts.start, ts.end], 'required': [es, ee]}
                    if 0 <= es <= ee <= n:
                        sub = text[es:ee]
                        if len(ts) != len(sub) or ts.count(nl) != sub.count(nl) or ts.is_complete_text() != (es == 0 and ee == n):
                            fail = fail or {'key': 'delegation', 'input': {'text': repr(text), 'start': start, 'end': end}, 'observed': [len(ts), ts.count(nl)], 'required': [len(sub), sub.count(nl)]}
                        if sub.count(nl) and ts.rindex(nl) != es + sub.rindex(nl):
                            fail = fail or {'key': 'rindex', 'input': {'text': repr(text), 'start': start, 'end': end}, 'observed': ts.rindex(nl), 'required': es + sub.rindex(nl)}
            c = TextSlice.cast_from(text)
            if (c.text, c.start, c.end) != (text, 0, n) or TextSlice.cast_from(c) is not c:
                fail = fail or {'key': 'cast_from', 'input': repr(text), 'observed': [c.start, c.end], 'required': [0, n]}
        if fail: break
    if fail: break
res = {'fails': bool(fail), 'evaluations': evals, 'distinct': distinct, 'exhaustive': True, 'failures': [fail] if fail else []}
if fail: res.update(input=fail['input'], observed=fail['observed'], required=fail['required'])
print(json.dumps(res))
