"""Native cross-check / replay search for C18: the real Indenter.process / handle_NL against the reference algorithm
(Python Language Reference 2.1.8 lifted to token streams), exhaustively over small streams; and the reference itself
against CPython's tokenize on small line structures.  argv: tier seed [only]"""
import io, itertools, json, sys, tokenize
from lark.indenter import Indenter, DedentError
from lark.lexer import Token

tier = sys.argv[1] if len(sys.argv) > 1 else 'quick'


class I(Indenter):
    NL_type = '_NL'; OPEN_PAREN_types = ['LPAR']; CLOSE_PAREN_types = ['RPAR']
    INDENT_type = '_INDENT'; DEDENT_type = '_DEDENT'; tab_len = 8


def ref_process(tokens, tab_len=8):
    """reference: stack of columns [0]; bracket depth; returns list of (kind, payload) or 'DedentError'"""
    stack, paren, out = [0], 0, []
    for t in tokens:
        if t.type == '_NL':
            if paren <= 0:
                out.append(('tok', id(t)))
                if '\n' in t:
                    tail = t.rsplit('\n', 1)[1]
                    w = tail.count(' ') + tail.count('\t') * tab_len
                    if w > stack[-1]:
                        stack.append(w); out.append(('_INDENT', None))
                    else:
                        while w < stack[-1]:
                            stack.pop(); out.append(('_DEDENT', None))
                        if w != stack[-1]:
                            return 'DedentError'
        else:
            out.append(('tok', id(t)))
        if t.type == 'LPAR': paren += 1
        elif t.type == 'RPAR': paren -= 1
    while len(stack) > 1:
        stack.pop(); out.append(('_DEDENT', None))
    return out


def run_real(ind, tokens):
    try:
        got = list(ind.process(iter(tokens)))
    except DedentError:
        return 'DedentError'
    except AssertionError as e:
        return 'AssertionError'
    except BaseException as e:
        return 'raised %s' % type(e).__name__
    ids = {id(t) for t in tokens}
    return [('tok', id(t)) if id(t) in ids else (t.type, None) for t in got]


NLS = ['\n', '\n  ', '\n    ', '\n\t', '\n  \n', '\n    \n  ', '  # c', '\n \n\n    ', '\r\n  ', '\n \t', '\n\t ']       # incl. a space before a tab: width is #spaces + tab_len * #tabs, not tab stops
KINDS = [('X', 'x'), ('LPAR', '('), ('RPAR', ')')] + [('_NL', s) for s in NLS]
maxlen = 4 if tier == 'quick' else 5
evals = distinct = 0
ind = I()           # one instance reused for every stream: process() must reset its state (C10)
fail = None
for n in range(0, maxlen + 1):
    for combo in itertools.product(KINDS, repeat=n):
        depth, ok = 0, True
        for k, _ in combo:
            depth += (k == 'LPAR') - (k == 'RPAR')
            if depth < 0: ok = False
        if not ok:
            continue
        toks = [Token(k, v) for k, v in combo]
        exp = ref_process(toks)
        got = run_real(ind, toks)
        evals += 1
        distinct += 1 if n >= 2 else 0
        if got != exp:
            def show(r, toks=toks):
                if isinstance(r, str): return r
                m = {id(t): '%s:%r' % (t.type, str(t)) for t in toks}
                return [m.get(p, k) if k == 'tok' else k for k, p in r]
            fail = {'key': 'process', 'input': [[k, v] for k, v in combo], 'observed': show(got), 'required': show(exp)}
            break
    if fail: break

# reference vs CPython tokenize (validation of the spec, not of the code)
def cpython_nesting(src):
    try:
        return [tokenize.tok_name[t.type] for t in tokenize.generate_tokens(io.StringIO(src).readline) if t.type in (tokenize.INDENT, tokenize.DEDENT)]
    except (tokenize.TokenError, IndentationError) as e:
        return 'error'
spec_mismatch = None
if fail is None:
    widths = [0, 1, 2, 4] if tier == 'quick' else [0, 1, 2, 3, 4, 8]
    for n in range(1, 4 if tier == 'quick' else 5):
        for ws in itertools.product(widths, repeat=n):
            if ws[0] != 0: continue
            src = ''.join(' ' * w + 'x\n' for w in ws)
            toks = []
            for i, w in enumerate(ws):
                toks.append(Token('X', 'x'))
                nxt = ws[i + 1] if i + 1 < n else 0
                toks.append(Token('_NL', '\n' + ' ' * nxt))
            r = ref_process(toks)
            mine = 'error' if r == 'DedentError' else [k.strip('_') for k, _ in r if k in ('_INDENT', '_DEDENT')]
            evals += 1
            if mine != cpython_nesting(src):
                spec_mismatch = {'key': 'spec-vs-tokenize', 'input': src, 'observed': mine, 'required': cpython_nesting(src)}
                break
        if spec_mismatch: break
res = {'fails': bool(fail or spec_mismatch), 'evaluations': evals, 'distinct': distinct, 'exhaustive': True,
       'failures': [f for f in (fail, spec_mismatch) if f]}
if fail: res.update(input=fail['input'], observed=fail['observed'], required=fail['required'])
print(json.dumps(res))
