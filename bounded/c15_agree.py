"""Bounded stand-in for the end-to-end statement of C15: the same text given as str, as bytes (use_bytes=True) and as a TextSlice window
of a larger buffer produces the same tokens, trees, positions and errors, for every engine that supports the representation.
Oracle: the str parse of the bare text (whose own correctness is C06/C07).  argv: tier seed"""
import itertools, json, sys
from lark import Lark, Token, Tree, TextSlice
from lark.exceptions import UnexpectedInput, UnexpectedCharacters, UnexpectedToken, UnexpectedEOF

tier = sys.argv[1] if len(sys.argv) > 1 else 'quick'
fails = []
evals = distinct = 0


def note(key, inp, obs, req):
    if not any(f['key'] == key for f in fails):
        fails.append({'key': key, 'input': inp, 'observed': obs, 'required': req})


def dec(v):
    return v.decode('latin-1') if isinstance(v, bytes) else v


def shape(x, dpos=0, dline=0, col0=None):
    """structural value with coordinates translated back by the window offset (dpos characters, dline lines; tokens on the window's first
    line are shifted by col0 columns)"""
    def co(line, col):
        if line is None: return (None, None)
        return (line - dline, col - (col0 or 0) if (col0 is not None and line - dline == 1) else col)
    if isinstance(x, Tree):
        m = None if x.meta.empty else (x.meta.start_pos - dpos, x.meta.end_pos - dpos) + co(x.meta.line, x.meta.column)
        return ('tree', str(x.data), m, [shape(c, dpos, dline, col0) for c in x.children])
    if isinstance(x, Token):
        return ('tok', x.type, dec(x.value), x.start_pos - dpos, x.end_pos - dpos) + co(x.line, x.column) + co(x.end_line, x.end_column)
    return ('val', dec(x) if isinstance(x, (str, bytes)) else x)


def outcome(parse, data, dpos=0, dline=0, col0=None):
    try:
        return ('ok', shape(parse(data), dpos, dline, col0))
    except UnexpectedCharacters as e:
        line, col = e.line - dline, e.column - ((col0 or 0) if (col0 is not None and e.line - dline == 1) else 0)
        return ('UnexpectedCharacters', e.pos_in_stream - dpos, line, col, dec(e.char))
    except UnexpectedToken as e:
        t = e.token
        return ('UnexpectedToken', t.type, None if t.start_pos is None else t.start_pos - dpos, sorted(e.expected))
    except UnexpectedEOF as e:
        return ('UnexpectedEOF', sorted(t.name if hasattr(t, 'name') else str(t) for t in e.expected))
    except UnexpectedInput as e:
        return (type(e).__name__,)


GRAMMARS = [
    # keywords against identifiers (retyping of a regexp match that equals a string terminal), newlines as tokens
    ('start: (IF | NAME | NL)*\nIF: "if"\nNAME: /[a-z]+/\nNL: /\\n/\n%ignore " "', 'ifx \n'),
    ('start: stmt*\nstmt: "if" NAME ";" | NAME "=" NAME ";"\nNAME: /[a-z]+/\n%ignore /[ \\n]+/', 'if x=;\n'),
    ('start: (S | C | W)*\nS: /"[^"]*"/\nC: /#[^\\n]*/\nW: /[a-z]+/\n%ignore /\\s+/', 'a"# \n'),
]
ENGINES = [('lalr', 'basic'), ('lalr', 'contextual'), ('earley', 'basic'), ('earley', 'dynamic')]
L = 4 if tier == 'quick' else 5
for g, alpha in GRAMMARS:
    for p, l in ENGINES:
        s_lark = Lark(g, parser=p, lexer=l, propagate_positions=True)
        b_lark = Lark(g, parser=p, lexer=l, propagate_positions=True, use_bytes=True)
        for n in range(0, L + 1):
            for chars in itertools.product(alpha, repeat=n):
                s = ''.join(chars)
                ref = outcome(s_lark.parse, s)
                evals += 1; distinct += 1
                got = outcome(b_lark.parse, s.encode('ascii'))
                if got != ref:
                    note('bytes-vs-str', {'grammar': g, 'engine': '%s/%s' % (p, l), 'text': s}, got, ref)
                # a slice that covers the whole text is the text (every engine, the dynamic lexers included)
                evals += 1
                try:
                    w = outcome(s_lark.parse, TextSlice(s, 0, len(s)))
                except TypeError as e:
                    w = ('raised TypeError', str(e)[:80])
                if w != ref:
                    note('complete-slice', {'grammar': g, 'engine': '%s/%s' % (p, l), 'text': s}, w, ref)
                if l in ('basic', 'contextual') and n >= 1:
                    for pre, suf in (('', 'zz'), ('q\n', ''), ('ab', '\n"'), ('\n\nxy', 'x')):
                        for lark_, conv in ((s_lark, lambda t: t), (b_lark, lambda t: t.encode('ascii'))):
                            evals += 1
                            buf = conv(pre + s + suf)
                            dline = pre.count('\n')
                            col0 = len(pre) - (pre.rfind('\n') + 1)
                            try:
                                w = outcome(lark_.parse, TextSlice(buf, len(pre), len(pre) + n), len(pre), dline, col0)
                            except TypeError:
                                continue                 # representation not supported by this engine: outside the property
                            if w != ref:
                                note('textslice-vs-whole', {'grammar': g, 'engine': '%s/%s' % (p, l), 'text': s, 'buffer': repr(buf), 'window': [len(pre), len(pre) + n]}, w, ref)
            if len(fails) >= 3: break

# recovery through on_error: skipping an unmatched character keeps the coordinates exact in both representations
G4 = 'start: A+\nA: "a"'
for text in ['a\na', 'a?a\n\na', '\n\na?\naa', 'a\n?\na']:
    for lexer in ('basic', 'contextual'):
        res = {}
        for use_bytes in (False, True):
            evals += 1
            lark_ = Lark(G4, parser='lalr', lexer=lexer, use_bytes=use_bytes, propagate_positions=True)
            data = text.encode('ascii') if use_bytes else text
            try:
                res[use_bytes] = ('ok', shape(lark_.parse(data, on_error=lambda e: isinstance(e, UnexpectedCharacters))))
            except UnexpectedInput as e:
                res[use_bytes] = (type(e).__name__,)
        if res[True] != res[False]:
            note('on-error-recovery', {'grammar': G4, 'lexer': lexer, 'text': text}, {'bytes': res[True]}, {'str': res[False]})
        # the str result itself: every A token sits where its character is
        if res[False][0] == 'ok':
            toks = [c for c in res[False][1][3]]
            exp = [(i, 1 + text.count('\n', 0, i), i - (text.rfind('\n', 0, i) + 1) + 1) for i, ch in enumerate(text) if ch == 'a']
            got = [(t[3], t[5], t[6]) for t in toks]
            if got != exp:
                note('on-error-recovery-positions', {'grammar': G4, 'lexer': lexer, 'text': text}, got, exp)

# lex() and scan() under the three representations
G5 = 'start: "if" NAME\nNAME: /[a-z]+/\n%ignore " "'
for text in ['if x', 'x if y', 'if if', 'if x\nif yy']:
    s_lark = Lark(G5, parser='lalr'); b_lark = Lark(G5, parser='lalr', use_bytes=True)
    evals += 1
    try:
        a = [shape(t) for t in s_lark.lex(text)]
    except UnexpectedInput as e:
        a = type(e).__name__
    try:
        b = [shape(t) for t in b_lark.lex(text.encode('ascii'))]
    except UnexpectedInput as e:
        b = type(e).__name__
    if a != b:
        note('lex-bytes-vs-str', {'grammar': G5, 'text': text}, b, a)
    if hasattr(s_lark, 'scan'):
        try:
            sa = [(m.range, shape(m.value) if hasattr(m, 'value') else None) for m in s_lark.scan(text)]
            sb = [(m.range, shape(m.value) if hasattr(m, 'value') else None) for m in b_lark.scan(text.encode('ascii'))]
            if sa != sb:
                note('scan-bytes-vs-str', {'grammar': G5, 'text': text}, sb, sa)
        except Exception as e:
            note('scan-bytes-vs-str', {'grammar': G5, 'text': text}, 'raised %r' % (e,), 'same matches')

res = {'fails': bool(fails), 'evaluations': evals, 'distinct': distinct, 'failures': fails}
if fails: res.update(input=fails[0]['input'], observed=fails[0]['observed'], required=fails[0]['required'])
print(json.dumps(res, default=str))
