"""Native cross-check / replay search for C12: behaviour with a cache file in every state equals the uncached build.
argv: tier seed"""
import io, json, os, pickle, sys, tempfile, shutil, logging
from lark import Lark, logger
logger.setLevel(logging.CRITICAL)
tier = sys.argv[1] if len(sys.argv) > 1 else 'quick'
fail = None
evals = distinct = 0
d = tempfile.mkdtemp()
G = [('start: A B*\nA: "a"\nB: "b"\n', {}, ['a', 'abb', 'b']),
     ('start: x\nother: B\nx: A [B]\nA: "a"\nB: "b"\n', {'maybe_placeholders': True}, ['a', 'ab']),
     ('?start: NAME | "(" start ")"\nNAME: /[a-z]+/\n%ignore " "\n', {'propagate_positions': True}, ['x', '( y )', '(']),
     ('start: WORD+\nWORD: /[a-z]+/\n%ignore /\\W+/\n', {}, ['ab\ncd\n\nef', 'a b', 'a\n1']),
     ('start: (W | S)+\nW: /[a-z]+/\nS: /\\D/\n', {'lexer': 'basic'}, ['ab\ncd', 'a\n\nb'])]


def shape(x):
    # structural value of a result: rule names and token (type, value) pairs - a cached parser names rules with plain str where a fresh
    # one uses Token('RULE', ..): equal trees, different repr
    from lark import Tree, Token
    if isinstance(x, Tree):
        return (str(x.data), [shape(c) for c in x.children], None if x.meta.empty else (x.meta.start_pos, x.meta.end_pos))
    if isinstance(x, Token):
        return (x.type, str(x), x.line, x.column, x.end_line, x.end_column)          # coordinates too: a cached parser counts lines like a fresh one
    return x


def behaviour(p, inputs):
    out = []
    for t in inputs:
        try:
            out.append(('ok', shape(p.parse(t))))
        except Exception as e:
            out.append(('err', type(e).__name__))
    return out


def note(key, inp, obs, req):
    global fail
    fail = fail or {'key': key, 'input': inp, 'observed': obs, 'required': req}


def build(g, fn, **opts):
    try:
        return ('ok', Lark(g, parser='lalr', cache=fn, **opts))
    except Exception as e:
        return ('raised', e)

try:
    for gi, (g, opts, inputs) in enumerate(G):
        ref = behaviour(Lark(g, parser='lalr', **opts), inputs)
        fn = os.path.join(d, 'c%d.bin' % gi)
        Lark(g, parser='lalr', cache=fn, **opts)
        data = open(fn, 'rb').read()
        f = io.BytesIO(data); f.readline(); hdr = f.tell()
        try:
            pickle.load(f)
        except Exception:             # a second header line (digest of the rest of the file)
            f.seek(hdr); f.readline(); pickle.load(f)
        body = f.tell()
        step = 1 if tier == 'thorough' else 5
        offsets = sorted(set(list(range(0, len(data), step)) + [hdr - 1, hdr, hdr + 1, body - 1, body, body + 1, len(data) - 1]))
        for t in offsets:
            if not (0 <= t < len(data)): continue
            evals += 1; distinct += 1
            open(fn, 'wb').write(data[:t])
            r = build(g, fn, **opts)
            if r[0] != 'ok':
                note('truncated', {'grammar': g, 'truncated_at': t, 'of': len(data)}, 'raised %r' % (r[1],), 'falls back to a rebuild'); break
            if behaviour(r[1], inputs) != ref:
                note('truncated', {'grammar': g, 'truncated_at': t}, behaviour(r[1], inputs), ref); break
            d2 = open(fn, 'rb').read()
            m1 = os.stat(fn).st_mtime_ns
            r2 = build(g, fn, **opts)
            if r2[0] != 'ok' or open(fn, 'rb').read() != d2 or os.stat(fn).st_mtime_ns != m1 or not d2.startswith(data[:hdr]):
                note('repair', {'grammar': g, 'truncated_at': t}, 'after the rebuild the cache file is not a valid entry for this key (next build was not a clean hit)', 'a stale or damaged file is replaced by a valid one'); break
        if fail: break
        # damage anywhere in the file - header, recorded files, pickled parser: one flipped bit (two kinds: low bit, and the bit that
        # changes the case of a letter, which tends to leave the pickle loadable), or a changed literal inside the pickled parser
        flips = range(0, len(data)) if tier == 'thorough' else sorted(set(list(range(0, len(data), 7)) + list(range(0, body + 8))))
        damaged = [('flipped_bit', t, m, bytes(data[:t] + bytes([data[t] ^ m]) + data[t + 1:])) for t in flips if t < len(data) for m in (0x01, 0x20)]
        for lit in (b'a', b'b', b'start', b'NAME'):
            k = data.find(lit, body)
            while k != -1 and len(damaged) < 100000:
                damaged.append(('changed_literal', k, lit.decode(), data[:k] + bytes([data[k] ^ 0x02]) + data[k + 1:]))
                k = data.find(lit, k + 1)
        for kind, t, m, bad in damaged:
            evals += 1
            open(fn, 'wb').write(bad)
            r = build(g, fn, **opts)
            where = 'header' if t < hdr else ('recorded-files' if t < body else 'body')
            if r[0] != 'ok':
                if isinstance(r[1], (MemoryError, OverflowError)): continue      # not modelled (stated assumption)
                note('corrupted-' + where, {'grammar': g, kind: [t, m], 'of': len(data)}, 'raised %r' % (r[1],), 'falls back to a rebuild'); break
            if behaviour(r[1], inputs) != ref:
                note('corrupted-' + where, {'grammar': g, kind: [t, m], 'of': len(data)}, behaviour(r[1], inputs), ref); break
        if fail: break
        open(fn, 'wb').write(data)
        # different options / grammar through the same file: never served stale
        variants = [dict(opts, start='other') if 'other:' in g else dict(opts, keep_all_tokens=True), dict(opts, maybe_placeholders=False),
                    dict(opts, propagate_positions=not opts.get('propagate_positions', False)), dict(opts, priority='invert'), dict(opts, g_regex_flags=2),
                    dict(opts, debug=True)]
        for v in variants:
            evals += 1; distinct += 1
            try:
                refv = behaviour(Lark(g, parser='lalr', **v), inputs)
            except Exception as e:
                refv = 'raises ' + type(e).__name__
            open(fn, 'wb').write(data)
            r = build(g, fn, **v)
            got = behaviour(r[1], inputs) if r[0] == 'ok' else 'raises ' + type(r[1]).__name__
            if got != refv:
                note('options', {'grammar': g, 'cached_with': opts, 'requested': {k: str(x) for k, x in v.items()}}, got, refv); break
        for g2 in (g + '// c\n', g.replace('"a"', '"c"')):
            evals += 1
            open(fn, 'wb').write(data)
            r = build(g2, fn, **opts)
            refg = behaviour(Lark(g2, parser='lalr', **opts), inputs + ['c'])
            got = behaviour(r[1], inputs + ['c']) if r[0] == 'ok' else 'raises'
            if got != refg:
                note('grammar', {'cached_grammar': g, 'requested_grammar': g2}, got, refg); break
        if fail: break
    # imported file content
    if not fail:
        sub = os.path.join(d, 'sub.lark'); main = os.path.join(d, 'main.lark'); fn = os.path.join(d, 'imp.bin')
        open(main, 'w').write('start: W\n%import .sub.W\n')
        for i, (content, later) in enumerate([('W: "a"\n', 'W: "b"\n'), ('W: "ab"\n', 'W: "ba"\n')]):
            open(sub, 'w').write(content)
            if os.path.exists(fn): os.unlink(fn)
            Lark.open(main, parser='lalr', cache=fn)
            st = os.stat(sub)
            open(sub, 'w').write(later)
            os.utime(sub, (st.st_atime, st.st_mtime - 1000))         # same length, older mtime: only the content tells
            evals += 1; distinct += 1
            p = Lark.open(main, parser='lalr', cache=fn)
            refb = behaviour(Lark.open(main, parser='lalr'), ['a', 'b', 'ab', 'ba'])
            if behaviour(p, ['a', 'b', 'ab', 'ba']) != refb:
                note('imported-file', {'imported_before': content, 'imported_now': later}, behaviour(p, ['a', 'b', 'ab', 'ba']), refb)
    # injectivity of the key encoding: the textbook collision of a bare concatenation
    if not fail:
        g = 'a: "x"\nb: "y"\n//'
        fn = os.path.join(d, 'k.bin')
        Lark(g, start='b', parser='lalr', cache=fn)
        evals += 1; distinct += 1
        r = build(g + 'startb', fn)
        if r[0] == 'ok':
            note('key-collision', {'grammar1': g, 'options1': {'start': 'b'}, 'grammar2': g + 'startb'}, 'served the parser cached for another grammar/option set', 'GrammarError like the uncached build')
finally:
    shutil.rmtree(d, ignore_errors=True)
res = {'fails': bool(fail), 'evaluations': evals, 'distinct': distinct, 'failures': [fail] if fail else []}
if fail: res.update(input=fail['input'], observed=fail['observed'], required=fail['required'])
print(json.dumps(res, default=str))
