"""Bounded stand-in for the table construction of C02 (compute_lr0_states / reads / includes / lookback / digraph / compute_lalr1_states),
also serving C08 (error position) and C13 (accepts): lark's LALR parser against an independent reference built here
(canonical LR(1) item sets merged by core, lark's documented conflict policy) on an enumerated family of small grammars.
Compared: construction outcome (GrammarError iff an unresolved reduce/reduce conflict), acceptance and index of the offending token for
every terminal string up to a length bound, accepts() after every accepted prefix, and that the driver never raises anything but
UnexpectedInput nor hangs (table well-formedness WF1-WF4 as it shows in runs).  argv: tier seed"""
import itertools, json, random, signal, sys
from lark import Lark, Token
from lark.exceptions import GrammarError, UnexpectedInput, UnexpectedToken

tier = sys.argv[1] if len(sys.argv) > 1 else 'quick'
seed = int(sys.argv[2]) if len(sys.argv) > 2 else 0
fails = []
evals = distinct = 0
TERMS = ['A', 'B', 'C']
NTS = ['start', 'x', 'y', 'z', 'w', 'v']       # all non-terminal names any family member may use (each grammar defines a subset)


def note(key, inp, obs, req):
    if not any(f['key'] == key for f in fails):
        fails.append({'key': key, 'input': inp, 'observed': obs, 'required': req})


# ---------------------------------------------------------------- reference LALR(1)
def first_sets(rules):
    nullable, first = set(), {n: set() for n in NTS + ['$root']}
    changed = True
    while changed:
        changed = False
        for lhs, rhs, _ in rules:
            if all(s in nullable for s in rhs) and lhs not in nullable:
                nullable.add(lhs); changed = True
            for s in rhs:
                add = {s} if s in TERMS else first[s]
                if not add <= first[lhs]:
                    first[lhs] |= add; changed = True
                if s not in nullable: break
    return nullable, first


def first_of(seq, la, nullable, first):
    out = set()
    for s in seq:
        if s in TERMS:
            out.add(s); return out
        out |= first[s]
        if s not in nullable: return out
    out.add(la); return out


def closure(items, rules, nullable, first):
    items = set(items); todo = list(items)
    while todo:
        (ri, dot, la) = todo.pop()
        rhs = rules[ri][1]
        if dot < len(rhs) and rhs[dot] not in TERMS:
            for la2 in first_of(rhs[dot + 1:], la, nullable, first):
                for rj, (lhs, _, _) in enumerate(rules):
                    if lhs == rhs[dot]:
                        it = (rj, 0, la2)
                        if it not in items:
                            items.add(it); todo.append(it)
    return frozenset(items)


def build_reference(rules):
    """rules: list of (lhs, rhs tuple, priority); rule 0 is $root -> start.  Returns (actions, conflict) with lark's policy."""
    nullable, first = first_sets(rules)
    start = closure({(0, 0, '$END')}, rules, nullable, first)
    states, todo, trans = {start: 0}, [start], {}
    while todo:
        I = todo.pop()
        syms = {rules[ri][1][dot] for (ri, dot, la) in I if dot < len(rules[ri][1])}
        for X in sorted(syms):
            J = closure({(ri, dot + 1, la) for (ri, dot, la) in I if dot < len(rules[ri][1]) and rules[ri][1][dot] == X}, rules, nullable, first)
            if J not in states:
                states[J] = len(states); todo.append(J)
            trans[(states[I], X)] = states[J]
    # merge by core
    core = lambda I: frozenset((ri, dot) for (ri, dot, la) in I)
    groups = {}
    for I, n in states.items():
        groups.setdefault(core(I), []).append(I)
    rep = {}
    for k, (c, Is) in enumerate(groups.items()):
        for I in Is: rep[states[I]] = k
    merged_items = {k: set() for k in set(rep.values())}
    for I, n in states.items():
        merged_items[rep[n]] |= set(I)
    mtrans = {(rep[s], X): rep[t] for (s, X), t in trans.items()}
    actions, conflict = {}, False
    for k, items in merged_items.items():
        act = {}
        for (s, X), t in mtrans.items():
            if s == k: act[X] = ('S', t)
        reds = {}
        for (ri, dot, la) in items:
            if dot == len(rules[ri][1]) and ri != 0:
                reds.setdefault(la, set()).add(ri)
        for la, rs in reds.items():
            rs = sorted(rs)
            if len(rs) > 1:
                pr = sorted(((rules[r][2] or 0), r) for r in rs)
                if pr[-1][0] > pr[-2][0]:
                    rs = [pr[-1][1]]
                else:
                    conflict = True; continue
            if la in act:           # shift/reduce: shift
                continue
            act[la] = ('R', rs[0])
        actions[k] = act
    accept_state = None
    for k, items in merged_items.items():
        if any(ri == 0 and dot == 1 for (ri, dot, la) in items): accept_state = k
    return actions, conflict, rep[0], accept_state


def ref_run(actions, rules, start_state, accept_state, toks):
    """-> (accepted, index of first offending token or len(toks) for $END, expected terminals per consumed prefix)"""
    stack = [start_state]
    expected_log = []
    def terminals_feedable(stack):
        out = set()
        for t in TERMS:
            st = list(stack); ok = True; fuel = 1000
            while fuel:
                fuel -= 1
                a = actions[st[-1]].get(t)
                if a is None: ok = False; break
                if a[0] == 'S': break
                lhs, rhs, _ = rules[a[1]]
                if rhs: del st[-len(rhs):]
                st.append(actions[st[-1]][lhs][1])
            if ok: out.add(t)
        return out
    for i, t in enumerate(list(toks) + ['$END']):
        if t != '$END': expected_log.append(terminals_feedable(stack))
        fuel = 10000
        while True:
            fuel -= 1
            if not fuel: return ('loop', i, expected_log)
            a = actions[stack[-1]].get(t)
            if a is None: return (False, i, expected_log)
            if a[0] == 'S':
                stack.append(a[1]); break
            lhs, rhs, _ = rules[a[1]]
            if rhs: del stack[-len(rhs):]
            stack.append(actions[stack[-1]][lhs][1])
            if t == '$END' and stack[-1] == accept_state: return (True, None, expected_log)
    return (False, len(toks), expected_log)


# ---------------------------------------------------------------- grammar family
def gen_grammars(rnd, count):
    syms = ['A', 'B', 'x', 'y']
    rhss = [()] + [(a,) for a in syms] + [(a, b) for a in syms for b in syms] + [('x', 'A', 'y'), ('A', 'x', 'B'), ('x', 'x', 'A')]
    seen = set()
    while len(seen) < count:
        g = {}
        g['start'] = rnd.sample([r for r in rhss if r], rnd.choice([1, 2, 2, 3]))
        g['x'] = rnd.sample(rhss, rnd.choice([1, 2, 2, 3]))
        g['y'] = rnd.sample(rhss, rnd.choice([1, 1, 2]))
        g['z'] = [('A',)]
        prio = {n: rnd.choice([None, None, None, 1, 2]) for n in g}
        key = json.dumps([g, prio], sort_keys=True)
        if key in seen: continue
        # every non-terminal must be able to derive a terminal string (no useless recursion only)
        seen.add(key)
        yield g, prio


def templates():
    """hand-made shapes the random family rarely hits: conflicts of both kinds on one terminal, nullable unit chains in several
    definition orders, mutually right-recursive nullable non-terminals (several builds each: set iteration order varies)"""
    out = []
    for p, q in ((2, 1), (1, 2), (None, 1), (2, None)):
        out.append(({'start': [('x', 'A'), ('y', 'A'), ('B', 'A', 'B')], 'x': [('B',)], 'y': [('B',)], 'z': [('A',)]}, {'start': None, 'x': p, 'y': q, 'z': None}, None))
        out.append(({'start': [('x', 'A'), ('y', 'A', 'B')], 'x': [('B',)], 'y': [('B',)], 'z': [('A',)]}, {'start': None, 'x': p, 'y': q, 'z': None}, None))
    chain = {'start': [('B', 'x', 'A')], 'x': [('y',)], 'y': [('z',)], 'z': [()]}
    chain2 = {'start': [('x', 'A'), ('B', 'x', 'C')], 'x': [('y',), ('C',)], 'y': [('z',), ('y', 'B')], 'z': [(), ('A', 'A')]}
    for g in (chain, chain2):
        for order in (['start', 'x', 'y', 'z'], ['x', 'y', 'z', 'start'], ['z', 'y', 'x', 'start'], ['x', 'start', 'y', 'z']):
            out.append((g, {n: None for n in NTS}, order))
    rr = [{'start': [('A', 'x', 'B'), ('C', 'y', 'C')], 'x': [('A', 'y'), ()], 'y': [('B', 'x'), (), ('C', 'z')], 'z': [('A', 'x'), ()]},
          {'start': [('x',), ('C', 'y', 'A')], 'x': [('A', 'y'), ('B',)], 'y': [('B', 'z'), ()], 'z': [('C', 'x'), ('A', 'y'), ()]},
          {'start': [('A', 'x', 'A'), ('B', 'y', 'B'), ('C', 'z', 'C')], 'x': [('B', 'y'), ()], 'y': [('C', 'z'), ('A', 'x'), ()], 'z': [('A', 'x'), ('B', 'y'), ()]}]
    for g in rr:
        for rep in range(6):
            out.append((g, {n: None for n in NTS}, None))
    # a reduction whose lookahead is only reachable through a nullable unit chain of length three (reads / includes relations),
    # the chain written top-down, bottom-up and mixed
    deep = [{'w': [('B',)], 'start': [('w', 'x', 'A')], 'x': [('y',)], 'y': [('z',)], 'z': [()]},
            {'w': [('B',)], 'v': [('w', 'x')], 'start': [('v', 'A')], 'x': [('y',)], 'y': [('z',)], 'z': [()]},
            {'w': [('B',), ('w', 'B')], 'start': [('w', 'x', 'A'), ('A', 'x', 'w')], 'x': [('y',), ('A', 'A')], 'y': [('z',)], 'z': [()]}]
    for g in deep:
        names = list(g)
        for order in (names, names[::-1], sorted(names), names[1:] + names[:1], names[2:] + names[:2]):
            out.append((g, {n: None for n in NTS}, order))
    # indirect left recursion (x -> y A, y -> x B): the closure of a state must hold the items of BOTH, whichever is expanded first
    ilr = [{'start': [('A', 'x'), ('B', 'y')], 'x': [('y', 'A'), ('z',)], 'y': [('x', 'B'), ('w',)], 'z': [('C',)], 'w': [('C', 'C')]},
           {'start': [('A', 'x', 'A'), ('B', 'y')], 'x': [('y', 'A'), ('C',)], 'y': [('z', 'B'), ('B',)], 'z': [('x',), ('z', 'C')]}]
    for g in ilr:
        names = list(g)
        for order in (names, names[::-1], names[1:] + names[:1], names[2:] + names[:2]):
            out.append((g, {n: None for n in NTS}, order))
    # transitions in one cycle of the 'reads' relation (nullable non-terminals reading each other) whose follow sets differ: the second
    # digraph pass must not leak lookaheads between them - visible through priority-resolved reduce/reduce conflicts
    cyc = [({'start': [('x', 'x'), ('y', 'y')], 'x': [(), ('A',)], 'y': [(), ('x', 'start', 'A')]}, {'y': 2}),
           ({'start': [(), ('y',)], 'x': [(), ('start', 'z', 'A')], 'y': [(), ('z',)], 'z': [('x', 'y')]}, {'y': 2, 'z': 2}),
           ({'start': [('x',)], 'x': [('y',)], 'y': [(), ('x', 'x', 'A'), ('y', 'y')]}, {'start': 1, 'x': 2}),
           ({'start': [('x', 'y', 'x')], 'x': [('y',)], 'y': [(), ('y',), ('start', 'A')]}, {'start': 1, 'x': 2})]
    for g, pr in cyc:
        out.append((g, dict({n: None for n in NTS}, **pr), None))
    return out


def to_lark(g, prio, order=None):
    lines = []
    for n in (order or [m for m in NTS if m in g]):
        alts = [' '.join(r) if r else '' for r in g[n]]
        lines.append('%s%s: %s' % (n, '.%d' % prio[n] if prio[n] else '', ' | '.join(alts)))
    return '\n'.join(lines) + '\nA: "a"\nB: "b"\nC: "c"\n'


def cyclic(rules):
    """some non-terminal derives itself (X =>+ X): the grammar has infinitely many derivations of one sentence"""
    nullable, _ = first_sets(rules)
    unit = {n: set() for n in NTS + ['$root']}
    for lhs, rhs, _ in rules:
        for i, s_ in enumerate(rhs):
            if s_ not in TERMS and all(o in nullable for j, o in enumerate(rhs) if j != i):
                unit[lhs].add(s_)
    for n in unit:
        seen, todo = set(), list(unit[n])
        while todo:
            m = todo.pop()
            if m == n: return True
            if m not in seen:
                seen.add(m); todo += list(unit[m])
    return False


class Timeout(Exception): pass
def _alarm(*a): raise Timeout()
signal.signal(signal.SIGALRM, _alarm)

COUNT = 200 if tier == 'quick' else 1200
MAXLEN = 4 if tier == 'quick' else 5
rnd = random.Random(seed)
FAMILY = [(g, prio, None) for g, prio in gen_grammars(rnd, COUNT)] + templates()
for g, prio, order in FAMILY:
    text = to_lark(g, prio, order)
    rules = [('$root', ('start',), None)] + [(n, tuple(r), prio.get(n)) for n in NTS if n in g for r in g[n]]
    # lark drops duplicate/unreachable rules silently? keep reference on reachable rules only
    reach, todo = {'start'}, ['start']
    while todo:
        n = todo.pop()
        for r in g[n]:
            for s in r:
                if s in NTS and s not in reach: reach.add(s); todo.append(s)
    rules = [r for r in rules if r[0] == '$root' or r[0] in reach]
    # duplicate alternatives are one rule
    uniq = []
    for r in rules:
        if (r[0], r[1]) not in [(u[0], u[1]) for u in uniq]: uniq.append(r)
    rules = uniq
    # reduced grammars only: every reachable non-terminal derives some terminal string
    prod, ch = set(), True
    while ch:
        ch = False
        for lhs, rhs, _ in rules:
            if lhs not in prod and all(s_ in TERMS or s_ in prod for s_ in rhs):
                prod.add(lhs); ch = True
    if any(r[0] not in prod for r in rules):
        continue
    evals += 1
    try:
        actions, conflict, s0, acc = build_reference(rules)
    except Exception as e:
        continue
    signal.alarm(10)
    try:
        try:
            p = Lark(text, parser='lalr', lexer='basic')
            built = True
        except GrammarError as e:
            built = False; msg = str(e)
        except Timeout:
            note('construction-hang', {'grammar': text}, 'Lark(...) did not return within 10 s', 'construction terminates'); continue
    finally:
        signal.alarm(0)
    if not built:
        if not conflict and 'Reduce/Reduce' in msg:
            note('rr-conflict', {'grammar': text}, 'GrammarError: ' + msg[:120], 'no unresolved reduce/reduce conflict in the LALR(1) automaton')
        continue
    if conflict:
        note('rr-conflict', {'grammar': text}, 'parser constructed', 'GrammarError: two rules compete for the same lookahead with no strict priority winner')
        continue
    distinct += 1
    nf0 = len(fails)
    stop = False
    for n in range(0, MAXLEN + 1):
        for toks in itertools.product(TERMS, repeat=n):
            exp_ok, exp_idx, exp_log = ref_run(actions, rules, s0, acc, toks)
            if exp_ok == 'loop':
                continue       # reduce cycle in the reference too: the known finding F11 class, checked separately
            s = ''.join(t.lower() for t in toks)
            signal.alarm(5)
            try:
                try:
                    ip = p.parse_interactive(s)
                    acc_log = []
                    idx = None
                    lexed = [Token(t, t.lower(), i, 1, i + 1, 1, i + 2, i + 1) for i, t in enumerate(toks)]
                    for i, tok in enumerate(lexed):
                        acc_log.append(set(ip.accepts()) - {'$END'})
                        try:
                            ip.feed_token(tok)
                        except UnexpectedToken:
                            idx = i; break
                    if idx is None:
                        try:
                            ip.feed_eof(lexed[-1] if lexed else None); got_ok = True
                        except UnexpectedToken:
                            got_ok, idx = False, len(toks)
                    else:
                        got_ok = False
                    try:
                        p.parse(s); whole = True
                    except UnexpectedInput:
                        whole = False
                except Timeout:
                    note('reduce-cycle-hang' if cyclic(rules) else 'driver-hang', {'grammar': text, 'input': s, 'cyclic_grammar': cyclic(rules)}, 'no result within 5 s', 'terminates'); stop = True; break
                except Exception as e:
                    note('driver-exception', {'grammar': text, 'input': s}, '%s: %s' % (type(e).__name__, str(e)[:100]), 'only UnexpectedInput'); stop = True; break
            finally:
                signal.alarm(0)
            if got_ok != exp_ok or whole != exp_ok:
                note('language', {'grammar': text, 'input': s}, {'interactive': got_ok, 'parse': whole}, {'reference LALR(1) automaton accepts': exp_ok}); stop = True; break
            if not exp_ok and idx != exp_idx:
                note('error-position', {'grammar': text, 'input': s}, idx, exp_idx); stop = True; break
            k = min(len(acc_log), len(exp_log))
            if acc_log[:k] != [set(x) for x in exp_log[:k]]:
                j = next(i for i in range(k) if acc_log[i] != set(exp_log[i]))
                note('accepts', {'grammar': text, 'input': s, 'after_tokens': j}, sorted(acc_log[j]), sorted(exp_log[j])); stop = True; break
        if stop: break
    if len([f for f in fails if f['key'] != 'reduce-cycle-hang']) >= 3: break

# ---------------------------------------------------------------- the closure operator of the lookahead computation, on its own
# digraph(X, R, G) must return F(x) = union of G(y) over all y reachable from x (reflexive-transitive closure of R): exhaustive over
# every relation on up to 4 nodes (quick: 3 nodes + a sample of 4), successor lists in ascending and descending order
try:
    from lark.parsers.lalr_analysis import digraph
except Exception:
    digraph = None
if digraph is not None:
    def closure_ok(n, bits, rev):
        X = list(range(n))
        R = {x: [y for y in (reversed(X) if rev else X) if bits >> (x * n + y) & 1] for x in X}
        G = {x: {x} for x in X}
        try:
            F = digraph(X, R, G)
        except Exception as e:
            return 'raised %s' % type(e).__name__, None
        exp = {}
        for x in X:
            seen, todo = {x}, [x]
            while todo:
                for y in R[todo.pop()]:
                    if y not in seen: seen.add(y); todo.append(y)
            exp[x] = seen
        got = {x: set(F[x]) for x in X}
        return (None, None) if got == exp else ({str(k): sorted(v) for k, v in got.items()}, {str(k): sorted(v) for k, v in exp.items()})
    space = [(n, b) for n in (1, 2, 3) for b in range(2 ** (n * n))]
    space += [(4, b) for b in (range(2 ** 16) if tier != 'quick' else rnd.sample(range(2 ** 16), 6000))]
    for n, b in space:
        for rev in (False, True):
            evals += 1
            got, exp = closure_ok(n, b, rev)
            if got is not None:
                note('digraph-closure', {'nodes': n, 'relation': {str(x): [y for y in range(n) if b >> (x * n + y) & 1] for x in range(n)}, 'successors_descending': rev},
                     got, exp if exp is not None else 'no exception')
                break
        if any(f['key'] == 'digraph-closure' for f in fails): break

    # the way compute_lookaheads uses it: the result of one pass is the set function of the next (follow = digraph(X, includes, digraph(X, reads, DR)))
    def reach(n, R):
        exp = {}
        for x in range(n):
            seen, todo = {x}, [x]
            while todo:
                for y in R[todo.pop()]:
                    if y not in seen: seen.add(y); todo.append(y)
            exp[x] = seen
        return exp
    pairs = [(n, b1, b2) for n in (1, 2) for b1 in range(2 ** (n * n)) for b2 in range(2 ** (n * n))]
    pairs += [(3, b1, b2) for b1 in range(2 ** 9) for b2 in range(2 ** 9)] if tier != 'quick' else [(3, rnd.randrange(2 ** 9), rnd.randrange(2 ** 9)) for _ in range(8000)]
    for n, b1, b2 in pairs:
        evals += 1
        X = list(range(n))
        R1 = {x: [y for y in X if b1 >> (x * n + y) & 1] for x in X}
        R2 = {x: [y for y in X if b2 >> (x * n + y) & 1] for x in X}
        try:
            F2 = digraph(X, R2, digraph(X, R1, {x: {x} for x in X}))
        except Exception as e:
            note('digraph-composed', {'nodes': n, 'first_relation': R1, 'second_relation': R2}, 'raised %s' % type(e).__name__, 'no exception'); break
        r1, r2 = reach(n, R1), reach(n, R2)
        exp = {x: set().union(*[r1[y] for y in r2[x]]) for x in X}
        got = {x: set(F2[x]) for x in X}
        if got != exp:
            note('digraph-composed', {'nodes': n, 'first_relation': {str(k): v for k, v in R1.items()}, 'second_relation': {str(k): v for k, v in R2.items()}},
                 {str(k): sorted(v) for k, v in got.items()}, {str(k): sorted(v) for k, v in exp.items()})
            break

# the recorded finding: priority-resolved reduce/reduce on a cyclic grammar -> the reduce loop never ends
g11 = 'start: a\na: b | "x"\nb.2: a\n'
signal.alarm(5)
try:
    try:
        Lark(g11, parser='lalr').parse('x')
    except Timeout:
        note('reduce-cycle-hang', {'grammar': g11, 'input': 'x'}, 'parse("x") does not return', 'an UnexpectedInput error or a tree, never a hang')
    except Exception:
        pass
finally:
    signal.alarm(0)
res = {'fails': bool(fails), 'evaluations': evals, 'distinct': distinct, 'failures': fails}
if fails: res.update(input=fails[0]['input'], observed=fails[0]['observed'], required=fails[0]['required'])
print(json.dumps(res, default=str))
