"""C18 - Indenter emits CPython's INDENT/DEDENT structure (Python Language Reference 2.1.8, lifted to token streams).

Spec vocabulary (definitional, from the reference): the indentation of the line following a newline token is the text after
its last '\\n', measured as  #' ' + tab_len * #'\\t'  (TAILSP / TAILTB are that tail's counts; HASNL says whether the token
contains a newline at all).  PAREN(stream, k) is the bracket depth after k tokens.
"""
from pyvc.util import mget, native_file

PROPERTY = 'C18'

TRUSTED = [
    "builtin contract str.rsplit(sep, 1): two parts iff sep occurs; part[1] is the text after the last sep (cross-checked against CPython in the thorough tier)",
    "builtin contract str.count: non-negative; Token.new_borrow_pos / Token(...) return a fresh token of the requested type (lark.lexer.Token.__new__, external here)",
    "Token.__eq__ (lark.lexer.Token, external here) is value equality: reflexive on one object, and equal tokens have the same type and the same text (hence the same HASNL/TAILSP/TAILTB/NONEMPTY) - axioms of the spec predicate SAMETOK",
    "reference algorithm: Python Language Reference 2.1.8 (stack of columns), validated against CPython tokenize by bounded/C18_tokenize",
]
ASSUMPTIONS = [
    "a generator is its produced sequence (consumer does not touch Indenter state between items)",
    "input streams contain no token already typed INDENT_type/DEDENT_type, and closing brackets never outnumber opening ones in any prefix (the parser rejects the unbalanced bracket first)",
]


BOUNDED = [dict(name='crosscheck.process', function='lark.indenter:Indenter.process (+ reference algorithm vs CPython tokenize)',
                code=native_file('bounded/c18_process.py'),
                bound={'quick': 'all bracket-balanced streams of <= 4 tokens over 12 token kinds; line structures of <= 3 lines',
                       'thorough': 'streams of <= 5 tokens; line structures of <= 4 lines'},
                note='CPython cross-check of the executable contract and validation of the reference algorithm; not counted as obligations')]


def register(reg):
    # Token.__eq__ is VALUE equality (same type and same text), not identity: two different tokens of a stream can be equal
    reg.cls('Token', target='lark.lexer:Token', consts={'type': 'str'}, truthy='NONEMPTY(self)', eq='SAMETOK(self, other)')
    reg.cls('Indenter', target='lark.indenter:Indenter',
            fields={'paren_level': 'int', 'indent_level': 'list[int]'},
            consts={'tab_len': 'int', 'NL_type': 'str', 'INDENT_type': 'str', 'DEDENT_type': 'str',
                    'OPEN_PAREN_types': 'fset[str]', 'CLOSE_PAREN_types': 'fset[str]'},
            invariant=['self.tab_len > 0'])
    reg.cls('DedentError', exception=True, bases=['LarkError'])
    reg.cls('LarkError', exception=True, bases=['Exception'])

    reg.specfun('NONEMPTY', [('t', 'Token')], 'bool')
    reg.specfun('HASNL', [('t', 'Token')], 'bool', doc="'\\n' in token")
    reg.specfun('SAMETOK', [('a', 'Token'), ('b', 'Token')], 'bool', doc='Token.__eq__(a, b): same type and same text',
                axioms=['implies(a is b, SAMETOK(a, b))',
                        'implies(SAMETOK(a, b), a.type == b.type and HASNL(a) == HASNL(b) and TAILSP(a) == TAILSP(b) and TAILTB(a) == TAILTB(b) and NONEMPTY(a) == NONEMPTY(b))'])
    reg.specfun('TAILSP', [('t', 'Token')], 'int', doc="number of ' ' after the last '\\n' of the token")
    reg.specfun('TAILTB', [('t', 'Token')], 'int', doc="number of '\\t' after the last '\\n' of the token")
    reg.specfun('BAL', [('xs', 'seq[Token]'), ('ind', 'str'), ('ded', 'str')], 'int',
                body="0 if len(xs) <= 0 else BAL(prefix(xs, len(xs)-1), ind, ded) + (1 if xs[len(xs)-1].type == ind else (-1 if xs[len(xs)-1].type == ded else 0))",
                doc='#INDENT - #DEDENT in a token sequence')
    reg.specfun('PAREN', [('xs', 'seq[Token]'), ('op', 'fset[str]'), ('cl', 'fset[str]')], 'int',
                body="0 if len(xs) <= 0 else PAREN(prefix(xs, len(xs)-1), op, cl) + (1 if xs[len(xs)-1].type in op else (-1 if xs[len(xs)-1].type in cl else 0))",
                doc='bracket depth after a token sequence')
    reg.specfun('EMIT', [('xs', 'seq[Token]'), ('nl', 'str'), ('op', 'fset[str]'), ('cl', 'fset[str]')], 'int',
                body="0 if len(xs) <= 0 else EMIT(prefix(xs, len(xs)-1), nl, op, cl) + (0 if (xs[len(xs)-1].type == nl and PAREN(prefix(xs, len(xs)-1), op, cl) > 0) else 1)",
                doc='number of input tokens that are passed through (newlines inside brackets are dropped)')
    reg.specfun('NORIG', [('xs', 'seq[Token]'), ('ind', 'str'), ('ded', 'str')], 'int',
                body="0 if len(xs) <= 0 else NORIG(prefix(xs, len(xs)-1), ind, ded) + (0 if (xs[len(xs)-1].type == ind or xs[len(xs)-1].type == ded) else 1)",
                doc='number of tokens in a sequence that are neither INDENT nor DEDENT')
    reg.specfun('LASTCOL', [('xs', 'seq[Token]'), ('nl', 'str'), ('op', 'fset[str]'), ('cl', 'fset[str]'), ('tl', 'int')], 'int',
                body="0 if len(xs) <= 0 else ((TAILSP(xs[len(xs)-1]) + TAILTB(xs[len(xs)-1]) * tl) if (xs[len(xs)-1].type == nl and PAREN(prefix(xs, len(xs)-1), op, cl) <= 0 and HASNL(xs[len(xs)-1])) "
                     "else LASTCOL(prefix(xs, len(xs)-1), nl, op, cl, tl))",
                doc='the column of the last line start seen so far: indentation of the last newline token that is outside brackets and holds a newline (0 before the first)')
    for f in ('BAL', 'NORIG'):
        reg.specfuns[f].additive = True

    # ---- externals (assumed)
    reg.contract('Token.rsplit', assumed=True, kind='method', pure=False,
                 params={'self': 'Token', 'sep': 'str', 'maxsplit': 'int'}, returns='list[str]',
                 requires=["sep == '\\n'", 'maxsplit == 1'],
                 ensures=['fresh(result)', 'len(result) == (2 if HASNL(self) else 1)',
                          "implies(HASNL(self), result[1].count(' ') == TAILSP(self) and result[1].count('\\t') == TAILTB(self))"])
    reg.contract('Token.__contains__', assumed=True, kind='method', pure=True,
                 params={'self': 'Token', 'item': 'str'}, returns='bool',
                 requires=["item == '\\n'"], ensures=['result == HASNL(self)'])
    reg.contract('Token.new_borrow_pos', assumed=True, kind='classmethod',
                 params={'type_': 'str', 'value': 'str', 'borrow_t': 'Token'}, returns='Token',
                 ensures=['fresh(result)', 'result.type == type_'])
    reg.contract('Token.__init__', assumed=True, kind='method',
                 params={'self': 'Token', 'type': 'str', 'value': 'str', 'start_pos': 'int', 'line': 'int', 'column': 'int',
                         'end_line': 'int', 'end_column': 'int', 'end_pos': 'int'},
                 ensures=['self.type == type'])

    WF = ['len(self.indent_level) >= 1', 'self.indent_level[0] == 0',
          'all(self.indent_level[i] < self.indent_level[j] for i in range(0, len(self.indent_level)) for j in range(i + 1, len(self.indent_level)))']
    W = '(TAILSP(token) + TAILTB(token) * self.tab_len)'
    S0 = 'old(seq(self.indent_level))'

    reg.contract('lark.indenter:Indenter.handle_NL', serves=['C18', 'C08'], kind='method', generator='Token',
                 params={'self': 'Indenter', 'token': 'Token'},
                 requires=WF + ['TAILSP(token) >= 0', 'TAILTB(token) >= 0', 'self.INDENT_type != self.DEDENT_type',
                                'token.type != self.INDENT_type', 'token.type != self.DEDENT_type'],
                 modifies=['self', 'self.indent_level'],
                 ensures=WF + [
                     'self.paren_level == old(self.paren_level)', 'self.indent_level is old(self.indent_level)',
                     # nothing for newlines inside brackets
                     'implies(old(self.paren_level) > 0, len(out) == 0 and seq(self.indent_level) == %s)' % S0,
                     # otherwise the newline token itself comes first
                     'implies(old(self.paren_level) <= 0, len(out) >= 1 and out[0] is token)',
                     # a newline-type token without a newline (comment at the very end of input) starts no line
                     'implies(old(self.paren_level) <= 0 and not HASNL(token), len(out) == 1 and seq(self.indent_level) == %s)' % S0,
                     # INDENT exactly when the indentation exceeds the current level: push + one INDENT
                     'implies(old(self.paren_level) <= 0 and HASNL(token) and %s > %s[len(%s)-1], len(out) == 2 and out[1].type == self.INDENT_type and fresh(out[1])'
                     ' and seq(self.indent_level) == %s + [%s])' % (W, S0, S0, S0, W),
                     # otherwise one DEDENT per closed level, landing on an open level
                     'implies(old(self.paren_level) <= 0 and HASNL(token) and %s <= %s[len(%s)-1], len(self.indent_level) <= len(%s)'
                     ' and all(self.indent_level[k] == %s[k] for k in range(0, len(self.indent_level)))'
                     ' and self.indent_level[len(self.indent_level)-1] == %s'
                     ' and len(out) == 1 + len(%s) - len(self.indent_level)'
                     ' and all(out[k].type == self.DEDENT_type and fresh(out[k]) for k in range(1, len(out))))' % (W, S0, S0, S0, S0, W, S0),
                     'BAL(out, self.INDENT_type, self.DEDENT_type) == len(self.indent_level) - len(%s)' % S0,
                     'NORIG(out, self.INDENT_type, self.DEDENT_type) == (0 if old(self.paren_level) > 0 else 1)',
                 ],
                 raises={'DedentError': [
                     # raised only on a dedent to a column that is not an open level
                     'old(self.paren_level) <= 0', 'HASNL(token)', '%s < %s[len(%s)-1]' % (W, S0, S0),
                     'not any(%s[k] == %s for k in range(0, len(%s)))' % (S0, W, S0)]},
                 loops={0: dict(inv=[
                     'self.indent_level is old(self.indent_level)', 'self.paren_level == old(self.paren_level)',
                     'len(self.indent_level) >= 1', 'len(self.indent_level) <= len(%s)' % S0,
                     'all(self.indent_level[k] == %s[k] for k in range(0, len(self.indent_level)))' % S0,
                     'all(%s[k] > indent for k in range(len(self.indent_level), len(%s)))' % (S0, S0),
                     'len(out) == 1 + len(%s) - len(self.indent_level)' % S0, 'out[0] is token',
                     'all(out[k].type == self.DEDENT_type and fresh(out[k]) for k in range(1, len(out)))',
                     'BAL(out, self.INDENT_type, self.DEDENT_type) == len(self.indent_level) - len(%s)' % S0,
                     'NORIG(out, self.INDENT_type, self.DEDENT_type) == 1',
                 ], decreases='len(self.indent_level)')},
                 names={'Token.new_borrow_pos': ('contract', 'Token.new_borrow_pos')},
                 replay=replay_handle_nl)

    OPCL = 'self.OPEN_PAREN_types, self.CLOSE_PAREN_types'
    reg.contract('lark.indenter:Indenter._process', serves=['C18', 'C08', 'C10'], kind='method', generator='Token',
                 params={'self': 'Indenter', 'stream': 'seq[Token]'},
                 types={'token': 'opt[Token]'},
                 requires=WF + ['self.paren_level == 0', 'len(self.indent_level) == 1',
                                'self.INDENT_type != self.DEDENT_type',
                                'all(stream[k].type != self.INDENT_type and stream[k].type != self.DEDENT_type for k in range(0, len(stream)))',
                                'all(TAILSP(stream[k]) >= 0 and TAILTB(stream[k]) >= 0 for k in range(0, len(stream)))',
                                # closing brackets balanced in every prefix
                                'all(PAREN(prefix(stream, k), %s) >= 0 for k in range(0, len(stream) + 1))' % OPCL],
                 modifies=['self', 'self.indent_level'],
                 ensures=['BAL(out, self.INDENT_type, self.DEDENT_type) == 0',       # balanced at the end of every stream
                          'seq(self.indent_level) == [0]',
                          'self.paren_level == PAREN(stream, %s)' % OPCL,
                          'NORIG(out, self.INDENT_type, self.DEDENT_type) == EMIT(stream, self.NL_type, %s)' % OPCL],
                 raises={'DedentError': []},
                 loops={0: dict(inv=WF + [
                            'self.indent_level is old(self.indent_level)',
                            '_i0 <= len(stream)',
                            'self.paren_level == PAREN(prefix(stream, _i0), %s)' % OPCL,
                            'BAL(out, self.INDENT_type, self.DEDENT_type) == len(self.indent_level) - 1',
                            'NORIG(out, self.INDENT_type, self.DEDENT_type) == EMIT(prefix(stream, _i0), self.NL_type, %s)' % OPCL,
                            # EVERY newline token outside brackets went through handle_NL: the open level is the column of the last line start
                            'self.indent_level[len(self.indent_level)-1] == LASTCOL(prefix(stream, _i0), self.NL_type, %s, self.tab_len)' % OPCL]),
                        1: dict(inv=WF + [
                            'self.indent_level is old(self.indent_level)',
                            'self.paren_level == PAREN(stream, %s)' % OPCL,
                            'BAL(out, self.INDENT_type, self.DEDENT_type) == len(self.indent_level) - 1',
                            'NORIG(out, self.INDENT_type, self.DEDENT_type) == EMIT(stream, self.NL_type, %s)' % OPCL],
                            decreases='len(self.indent_level)')},
                 ghost={'Assert#0': ['PAREN(prefix(stream, _i0 + 1), %s) >= 0' % OPCL]},
                 names={'Token.new_borrow_pos': ('contract', 'Token.new_borrow_pos'), 'Token': ('class', 'Token')},
                 replay=replay_handle_nl)

    reg.contract('lark.indenter:Indenter.process', serves=['C18', 'C10'], kind='method',
                 params={'self': 'Indenter', 'stream': 'seq[Token]'}, returns='seq[Token]',
                 requires=['self.INDENT_type != self.DEDENT_type',
                           'all(stream[k].type != self.INDENT_type and stream[k].type != self.DEDENT_type for k in range(0, len(stream)))',
                           'all(TAILSP(stream[k]) >= 0 and TAILTB(stream[k]) >= 0 for k in range(0, len(stream)))',
                           'all(PAREN(prefix(stream, k), %s) >= 0 for k in range(0, len(stream) + 1))' % OPCL],
                 modifies=['self'],
                 # whatever state earlier streams left behind, the result is that of a fresh Indenter (C10)
                 ensures=['BAL(result, self.INDENT_type, self.DEDENT_type) == 0',
                          'NORIG(result, self.INDENT_type, self.DEDENT_type) == EMIT(stream, self.NL_type, %s)' % OPCL],
                 raises={'DedentError': []}, replay=replay_handle_nl)


def replay_handle_nl(model):
    return native_file('bounded/c18_process.py')
