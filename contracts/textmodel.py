"""Abstract text buffers (str / bytes) with newline bookkeeping, shared by C06 / C14 / C15.

A `text` value is an immutable buffer.  Spec vocabulary over the *whole* buffer:
  NLC(t, a, b)   number of newline characters in t[a:b]
  LNL(t, a, b)   absolute index of the last newline in t[a:b], or -1
  ISBYTES(t)     the buffer is a bytes object
  NLCHAR(c, t)   c is the newline spelling of t's kind ('\\n' for str, b'\\n' for bytes)
  ISSLICE(s, t, a)  s == t[a : a+len(s)]
The axioms below are the assumed contracts of str/bytes .count/.rindex/len/slicing restricted to the newline character; they
are cross-checked against CPython exhaustively on small strings by bounded/text_axioms.py (thorough tier and selftest).
"""

TRUSTED = [
    "builtin contracts of str/bytes: count(nl, a, b) is additive over adjacent ranges and bounded by the range length; rindex(nl, a, b) "
    "is the last occurrence (ValueError iff none); a slice has the counts of its range (contracts/textmodel.py, cross-checked against CPython by bounded/text_axioms.py)",
]


def register_text(reg):
    reg.specfun('NLC', [('t', 'text'), ('a', 'int'), ('b', 'int')], 'int')
    reg.specfun('LNL', [('t', 'text'), ('a', 'int'), ('b', 'int')], 'int')
    reg.specfun('ISBYTES', [('t', 'text')], 'bool')
    reg.specfun('NLCHAR', [('c', 'any'), ('t', 'text')], 'bool')
    reg.specfun('ISSLICE', [('s', 'text'), ('t', 'text'), ('a', 'int')], 'bool')

    T3 = [('t', 'text'), ('a', 'int'), ('b', 'int')]
    reg.axiom('nlc.range', T3, 'NLC(t, a, b) >= 0 and implies(a >= b, NLC(t, a, b) == 0) and implies(a < b, NLC(t, a, b) <= b - a)', ['NLC(t, a, b)'])
    reg.axiom('nlc.additive', T3 + [('c', 'int')], 'implies(a <= b and b <= c, NLC(t, a, c) == NLC(t, a, b) + NLC(t, b, c))',
              [['NLC(t, a, b)', 'NLC(t, b, c)'], ['NLC(t, a, c)', 'NLC(t, a, b)'], ['NLC(t, a, c)', 'NLC(t, b, c)']])
    reg.axiom('lnl.none', T3, 'iff(NLC(t, a, b) == 0, LNL(t, a, b) == -1)', ['LNL(t, a, b)'])
    reg.axiom('lnl.last', T3, 'implies(NLC(t, a, b) > 0, a <= LNL(t, a, b) and LNL(t, a, b) < b and NLC(t, LNL(t, a, b) + 1, b) == 0 '
              'and NLC(t, LNL(t, a, b), LNL(t, a, b) + 1) == 1)', ['LNL(t, a, b)'])
    reg.axiom('lnl.split', T3 + [('c', 'int')], 'implies(a <= b and b <= c, LNL(t, a, c) == (LNL(t, b, c) if NLC(t, b, c) > 0 else LNL(t, a, b)))',
              [['LNL(t, a, c)', 'NLC(t, b, c)'], ['LNL(t, a, b)', 'NLC(t, b, c)']])
    reg.axiom('slice.counts', [('s', 'text'), ('t', 'text'), ('a', 'int')],
              'implies(ISSLICE(s, t, a), a >= 0 and a + len(s) <= len(t) and ISBYTES(s) == ISBYTES(t) '
              'and NLC(s, 0, len(s)) == NLC(t, a, a + len(s)) '
              'and LNL(t, a, a + len(s)) == (a + LNL(s, 0, len(s)) if NLC(s, 0, len(s)) > 0 else -1))', ['ISSLICE(s, t, a)'])
    reg.axiom('text.len', [('t', 'text')], 'len(t) >= 0', ['len(t)'])
    reg.axiom('nlchar.kind', [('c', 'any'), ('s', 'text'), ('t', 'text')], 'implies(ISBYTES(s) == ISBYTES(t), NLCHAR(c, s) == NLCHAR(c, t))',
              [['NLCHAR(c, s)', 'ISBYTES(t)']])

    reg.axiom('nlchar.str', [('t', 'text')], "NLCHAR('\\n', t) == (not ISBYTES(t))", ["NLCHAR('\\n', t)"])
    reg.axiom('nlchar.bytes', [('t', 'text')], "NLCHAR(b'\\n', t) == ISBYTES(t)", ["NLCHAR(b'\\n', t)"])

    # str/bytes methods restricted to the newline character (assumed builtin contracts)
    reg.contract('text.count/1', assumed=True, pure=True, params={'self': 'text', 'c': 'any'}, returns='int',
                 requires=['NLCHAR(c, self)'], ensures=['result == NLC(self, 0, len(self))'])
    reg.contract('text.count/3', assumed=True, pure=True, params={'self': 'text', 'c': 'any', 'a': 'int', 'b': 'int'}, returns='int',
                 requires=['NLCHAR(c, self)', '0 <= a', 'a <= b', 'b <= len(self)'], ensures=['result == NLC(self, a, b)'])
    reg.contract('text.rindex/1', assumed=True, pure=True, params={'self': 'text', 'c': 'any'}, returns='int',
                 requires=['NLCHAR(c, self)', 'NLC(self, 0, len(self)) > 0'], ensures=['result == LNL(self, 0, len(self))'])
    reg.contract('text.rindex/3', assumed=True, pure=True, params={'self': 'text', 'c': 'any', 'a': 'int', 'b': 'int'}, returns='int',
                 requires=['NLCHAR(c, self)', '0 <= a', 'a <= b', 'b <= len(self)', 'NLC(self, a, b) > 0'], ensures=['result == LNL(self, a, b)'])


LINE = '(1 + NLC(%(t)s, 0, %(p)s))'
LSP = '(LNL(%(t)s, 0, %(p)s) + 1)'


def INV(ctr, text):
    """representation invariant of a LineCounter over the whole buffer"""
    d = dict(t=text, p=ctr + '.char_pos')
    return ['%s.line == %s' % (ctr, LINE % d), '%s.line_start_pos == %s' % (ctr, LSP % d),
            '%s.column == %s.char_pos - %s.line_start_pos + 1' % (ctr, ctr, ctr),
            '0 <= %s.char_pos' % ctr, '%s.char_pos <= len(%s)' % (ctr, text), 'NLCHAR(%s.newline_char, %s)' % (ctr, text)]


def register_linecounter(reg, serves):
    reg.cls('LineCounter', target='lark.lexer:LineCounter',
            fields={'char_pos': 'int', 'line': 'int', 'column': 'int', 'line_start_pos': 'int', 'newline_char': 'any'})
    reg.cls('TextSlice', target='lark.utils:TextSlice', consts={'text': 'text', 'start': 'int', 'end': 'int'})
    reg.cls('_TextSlice_WithLineCount', target='lark.lexer:_TextSlice_WithLineCount', bases=['TextSlice'],
            consts={'line': 'int', 'line_start_pos': 'int'})

    reg.contract('lark.lexer:LineCounter.__init__', serves=serves, kind='method',
                 params={'self': 'LineCounter', 'newline_char': 'any'}, modifies=['self'],
                 ensures=['self.char_pos == 0', 'self.line == 1', 'self.column == 1', 'self.line_start_pos == 0',
                          'self.newline_char == newline_char'])

    reg.contract('lark.lexer:LineCounter.feed', serves=serves, kind='method',
                 params={'self': 'LineCounter', 'token': 'text', 'test_newline': 'bool', 'text': 'text'}, ghost_params=['text'],
                 ghost={'defaults': {'test_newline': True}},
                 requires=INV('self', 'text') + ['ISSLICE(token, text, self.char_pos)',
                                                 'test_newline or NLC(token, 0, len(token)) == 0'],
                 modifies=['self'],
                 ensures=INV('self', 'text') + ['self.char_pos == old(self.char_pos) + len(token)',
                                                'self.newline_char == old(self.newline_char)'])

    reg.contract('lark.lexer:LineCounter.advance_to', serves=serves, kind='method',
                 params={'self': 'LineCounter', 'text': 'text', 'pos': 'int'},
                 requires=INV('self', 'text') + ['self.char_pos <= pos', 'pos <= len(text)'],
                 modifies=['self'],
                 ensures=INV('self', 'text') + ['self.char_pos == pos', 'self.newline_char == old(self.newline_char)'])

    d = dict(t='text_slice.text', p='text_slice.start')
    reg.contract('lark.lexer:LineCounter.from_text_slice', serves=serves, kind='classmethod',
                 params={'text_slice': 'TextSlice'}, returns='LineCounter',
                 requires=['0 <= text_slice.start', 'text_slice.start <= len(text_slice.text)',
                           # the snapshot carried by a _TextSlice_WithLineCount is that of its start offset (established by _scan, C14)
                           'implies(isinstance(text_slice, _TextSlice_WithLineCount), text_slice.line == %s and text_slice.line_start_pos == %s)' % (LINE % d, LSP % d)],
                 ensures=['fresh(result)', 'result.char_pos == text_slice.start'] + INV('result', 'text_slice.text'),
                 names={'cls': ('class', 'LineCounter')})
