"""C16 - embedded transformer equals transforming afterwards; the transformer variants agree.

Deductive kernel (one-step contracts; the induction over the tree is the recursion itself):
  Transformer._transform_children      every child is mapped once, in order: trees by _transform_tree, tokens (if visit_tokens) by the token
                                       callback, anything else unchanged; Discard results are dropped (positional spec DLEN / DAT)
  Transformer._transform_tree          the user callback gets exactly the transformed children (children before parents, once)
  Transformer_InPlace._transform_tree  returns what the user callback returns (whatever it is, None included)
  Transformer_InPlaceRecursive._transform_tree   children replaced by their transformed list, then the callback
  parser_frontends._get_lexer_callbacks  a terminal callback is installed for exactly the terminals the transformer has an attribute for
plus the shaping chain of C03 (UNIT) that wraps both the tree builder and a user callback.
"""
import z3
from pyvc.ty import SV, ANY, AnyS
from pyvc.util import native_file

PROPERTY = 'C16'
UNITS = ['C16', 'C03', 'C02']       # C02: the driver applies a terminal callback to each shifted token itself (not to an equal-looking earlier one)
TRUSTED = [
    "user callbacks are pure functions of their arguments: TT / TK / CUL / CU1 / ATTR are uninterpreted functions (the property's own premise)",
    "getattr(obj, computed_name, default) is modelled by ATTR(obj, name)",
]
ASSUMPTIONS = [
    "Transformer_NonRecursive.transform and Transformer_InPlace.transform (post-order stack machines) are covered by the bounded stand-in only",
    "create_callback wrapper selection (visit_wrapper / inplace_transformer) is covered by the bounded stand-in only (F12 known finding)",
]
BOUNDED = [dict(name='standin.transformers', function='Transformer / Transformer_NonRecursive / Transformer_InPlace / Transformer_InPlaceRecursive .transform; embedded vs post-hoc',
                code=native_file('bounded/c16_transformers.py'),
                bound={'quick': 'all tree shapes up to 6 nodes x recording transformer x 4 variants (results and call logs vs the recursive definition); 5 grammars embedded vs post-hoc',
                       'thorough': 'tree shapes up to 8 nodes'},
                note='bounded stand-in for the two stack-machine transform() methods and create_callback: never counted as proved')]


def _replay(model):
    return native_file('bounded/c16_transformers.py')


DISCARD = SV(ANY, z3.Const('Discard!obj', AnyS))


def register(reg):
    S = ['C16']
    reg.cls('Tree', consts={'data': 'str'}, fields={'children': 'list[any]'})
    reg.cls('Token', consts={'type': 'str'})
    reg.cls('Transformer', target='lark.visitors:Transformer', consts={'__visit_tokens__': 'bool'})
    reg.cls('Transformer_InPlace', target='lark.visitors:Transformer_InPlace', bases=['Transformer'])
    reg.cls('Transformer_InPlaceRecursive', target='lark.visitors:Transformer_InPlaceRecursive', bases=['Transformer'])
    reg.specfun('TT', [('t', 'Transformer'), ('c', 'any')], 'any', doc='result of transforming a sub-tree')
    reg.specfun('TK', [('t', 'Transformer'), ('c', 'any')], 'any', doc='result of the token callback')
    reg.specfun('CUL', [('t', 'Transformer'), ('tree', 'Tree'), ('children', 'list[any]')], 'any', doc='user callback applied to a tree with the given (transformed) children')
    reg.specfun('CU1', [('t', 'Transformer'), ('tree', 'Tree')], 'any', doc='user callback applied to a tree with its current children')
    ITEM = lambda c: '(TT(self, %s) if isinstance(%s, Tree) else (TK(self, %s) if (self.__visit_tokens__ and isinstance(%s, Token)) else %s))' % (c, c, c, c, c)
    L = 'xs[len(xs)-1]'
    ITEMX = '(TT(t, %s) if isinstance(%s, Tree) else (TK(t, %s) if (t.__visit_tokens__ and isinstance(%s, Token)) else %s))' % (L, L, L, L, L)
    reg.specfun('DLEN', [('xs', 'seq[any]'), ('t', 'Transformer')], 'int',
                body='0 if len(xs) <= 0 else DLEN(prefix(xs, len(xs)-1), t) + (0 if %s is Discard else 1)' % ITEMX)
    reg.specfun('DAT', [('xs', 'seq[any]'), ('t', 'Transformer'), ('p', 'int')], 'any',
                body='None if len(xs) <= 0 else (DAT(prefix(xs, len(xs)-1), t, p) if p < DLEN(prefix(xs, len(xs)-1), t) else %s)' % ITEMX)
    reg.global_names['Discard'] = ('sv', DISCARD)
    for f in ('DLEN', 'DAT'):
        reg.specfuns[f].prefix = False
    NM = {'Discard': ('sv', DISCARD), 'Tree': ('class', 'Tree'), 'Token': ('class', 'Token')}
    reg.global_names.update(NM)

    reg.contract('lark.visitors:Transformer._call_userfunc', assumed=True, kind='method',
                 params={'self': 'Transformer', 'tree': 'Tree', 'new_children': 'opt[list[any]]'}, returns='any',
                 ghost={'defaults': {'new_children': None}},
                 ensures=['implies(new_children is not None, result == CUL(self, tree, val(new_children)))', 'implies(new_children is None, result == CU1(self, tree))'])
    reg.contract('lark.visitors:Transformer._call_userfunc_token', assumed=True, kind='method',
                 params={'self': 'Transformer', 'token': 'any'}, returns='any', ensures=['result == TK(self, token)'])
    reg.contract('lark.visitors:Transformer._transform_tree/any', assumed=True, kind='method',
                 params={'self': 'Transformer', 'tree': 'any'}, returns='any', ensures=['result == TT(self, tree)'])
    CH0 = 'old(seq(children))'
    reg.contract('lark.visitors:Transformer._transform_children', serves=S, kind='method', generator='any',
                 params={'self': 'Transformer', 'children': 'list[any]'},
                 ensures=['len(out) == DLEN(%s, self)' % CH0,
                          'all(implies(0 <= p and p < len(out), out[p] == DAT(%s, self, p)) for p in INT)' % CH0],
                 loops={0: dict(inv=['seq(children) == %s' % CH0, 'len(out) == DLEN(prefix(%s, _i0), self)' % CH0,
                                     'all(implies(0 <= p and p < len(out), out[p] == DAT(prefix(%s, _i0), self, p)) for p in INT)' % CH0])},
                 names=dict(NM, **{'self._transform_tree': ('contract', 'lark.visitors:Transformer._transform_tree/any')}),
                 replay=_replay)
    reg.contract('lark.visitors:Transformer._transform_children/call', assumed=True, kind='method', generator='any',
                 params={'self': 'Transformer', 'children': 'list[any]'},
                 ensures=['len(out) == DLEN(seq(children), self)', 'all(implies(0 <= p and p < len(out), out[p] == DAT(seq(children), self, p)) for p in INT)'])
    GEN = {'self._transform_children': ('contract', 'lark.visitors:Transformer._transform_children/call')}
    TCH = 'old(seq(tree.children))'
    reg.contract('lark.visitors:Transformer._transform_tree', serves=S, kind='method',
                 params={'self': 'Transformer', 'tree': 'Tree'}, returns='any',
                 ensures=['fresh(children)', 'len(children) == DLEN(%s, self)' % TCH,
                          'all(implies(0 <= p and p < len(children), children[p] == DAT(%s, self, p)) for p in INT)' % TCH,
                          'result == CUL(self, tree, children)', 'seq(tree.children) == %s' % TCH],      # the original tree is not changed
                 names=dict(NM, **GEN), replay=_replay)
    reg.contract('lark.visitors:Transformer_InPlace._transform_tree', serves=S, kind='method',
                 params={'self': 'Transformer_InPlace', 'tree': 'Tree'}, returns='any',
                 ensures=['result == CU1(self, tree)', 'seq(tree.children) == %s' % TCH], replay=_replay)
    reg.contract('lark.visitors:Transformer_InPlaceRecursive._transform_tree', serves=S, kind='method',
                 params={'self': 'Transformer_InPlaceRecursive', 'tree': 'Tree'}, returns='any', modifies=['tree'],
                 ensures=['fresh(tree.children)', 'len(tree.children) == DLEN(%s, self)' % TCH,
                          'all(implies(0 <= p and p < len(tree.children), tree.children[p] == DAT(%s, self, p)) for p in INT)' % TCH,
                          'result == CU1(self, tree)'],
                 names=dict(NM, **GEN), replay=_replay)

    # ---- terminal callbacks of an embedded transformer
    reg.cls('TerminalDef', consts={'name': 'str'})
    reg.specfun('ATTR', [('o', 'any'), ('name', 'str')], 'any', doc="getattr(o, name, None)")
    reg.contract('getattr/3', assumed=True, pure=True, params={'transformer': 'any', 'terminal': 'TerminalDef'}, ghost_params=['transformer', 'terminal'], returns='any',
                 ensures=['result == ATTR(transformer, terminal.name)'])
    reg.specfun('VISITTOK', [('t', 'any')], 'bool', doc="the transformer visits tokens: getattr(t, '__visit_tokens__', True)")
    reg.contract('getattr/visit_tokens', assumed=True, pure=True, params={'transformer': 'any'}, ghost_params=['transformer'], returns='bool', ensures=['result == VISITTOK(transformer)'])
    reg.contract('lark.parser_frontends:_get_lexer_callbacks', serves=S,
                 params={'transformer': 'any', 'terminals': 'list[TerminalDef]'}, returns='dict[str,any]',
                 types={'result': 'dict[str,any]'},
                 ensures=['fresh(result)',
                          # a transformer that does not visit tokens (visit_tokens=False) gets no terminal callbacks: post-hoc it would not call them either
                          'implies(not VISITTOK(transformer), all(not (n in result) for n in STR))',
                          # otherwise exactly the terminals the transformer has an attribute for - whatever their name looks like
                          'implies(VISITTOK(transformer), all(implies(ATTR(transformer, terminals[k].name) is not None, terminals[k].name in result and result[terminals[k].name] == ATTR(transformer, terminals[k].name)) for k in range(0, len(terminals))))',
                          'all(implies(n in result, any(terminals[k].name == n and ATTR(transformer, n) is not None for k in range(0, len(terminals)))) for n in STR)'],
                 loops={0: dict(inv=['fresh(result)',
                                     'all(implies(ATTR(transformer, terminals[k].name) is not None, terminals[k].name in result and result[terminals[k].name] == ATTR(transformer, terminals[k].name)) for k in range(0, _i0))',
                                     'all(implies(n in result, any(terminals[k].name == n and ATTR(transformer, n) is not None for k in range(0, _i0))) for n in STR)'])},
                 names={'expr:getattr(transformer, terminal.name, None)': ('contract', 'getattr/3'),
                        "expr:getattr(transformer, '__visit_tokens__', True)": ('contract', 'getattr/visit_tokens')},
                 replay=_replay)
