"""C06 - token and tree positions are exact source coordinates."""
from pyvc.util import mget, native_file
from . import textmodel

PROPERTY = 'C06'
UNITS = ['C06', 'C07']        # UnlessCallback.__call__ (C07's unit) must keep value and positions of the token it retypes
TRUSTED = list(textmodel.TRUSTED)
ASSUMPTIONS = []


BOUNDED = [dict(name='crosscheck.positions', function='LineCounter.feed/advance_to/from_text_slice, BasicLexer.next_token via Lark.lex',
                code=native_file('bounded/c06_positions.py'),
                bound={'quick': 'all str/bytes texts over {a, newline} of length <= 5 x all (advance, feed) splits; 3 grammars x 2 lexers x str/bytes x texts of length <= 4 x 3 windows',
                       'thorough': 'texts of length <= 7; lexed texts of length <= 6'},
                note='CPython cross-check of the executable contracts (engine self-test) and replay search; not counted as obligations'),
           dict(name='standin.newline-dynamic-meta', function='_regexp_has_newline/_sre_may_match_newline (recursive walk over sre_parse output: outside the subset), xearley token coordinates end to end, PropagatePositions through ParseTreeBuilder',
                code=native_file('bounded/c06_parse.py'),
                bound={'quick': '31 newline-capable or newline-free atoms x 3 contexts x 2 flag sets x str/bytes x 10 probe strings through Lark.lex; 3 grammars x dynamic/dynamic_complete x str/bytes x all texts of length <= 4; 3 grammars x 4 engines x 3-4 texts for meta spans',
                       'thorough': '31 atoms x 5 contexts x 4 flag sets; dynamic texts of length <= 5'},
                note='bounded: stands in for the functions named; never counted as proved')]


def _replay(model):
    return native_file('bounded/c06_positions.py')


def register(reg):
    textmodel.register_text(reg)
    textmodel.register_linecounter(reg, serves=['C06', 'C15', 'C14'])
    for c in reg.contracts.values():
        if not c.assumed:
            c.replay = _replay

    register_lexer(reg)
    register_dynamic(reg)
    register_recovery(reg)


TXT = 'lex_state.text.text'
LINE = lambda p: '(1 + NLC(%s, 0, %s))' % (TXT, p)
COL = lambda p: '(%s - (LNL(%s, 0, %s) + 1) + 1)' % (p, TXT, p)


def register_lexer(reg):
    reg.cls('Token', target='lark.lexer:Token',
            fields={'type': 'str', 'value': 'text', 'start_pos': 'int', 'line': 'int', 'column': 'int',
                    'end_line': 'int', 'end_column': 'int', 'end_pos': 'int'})
    reg.cls('LexerState', target='lark.lexer:LexerState',
            fields={'text': 'TextSlice', 'line_ctr': 'LineCounter', 'last_token': 'opt[Token]'})
    reg.cls('Scanner', target='lark.lexer:Scanner', fields={'allowed_types': 'set[str]'})
    reg.cls('BasicLexer', target='lark.lexer:BasicLexer',
            fields={'callback': 'dict[str,any]', 'ignore_types': 'set[str]', 'newline_types': 'set[str]',
                    'terminals_by_name': 'any', '_scanner': 'opt[Scanner]', 'terminals': 'list[TerminalDef]'})
    reg.cls('TerminalDef', consts={'name': 'str'})
    for e, b in (('LarkError', ['Exception']), ('LexError', ['LarkError']), ('UnexpectedInput', ['LarkError']),
                 ('UnexpectedCharacters', ['LexError', 'UnexpectedInput'])):
        reg.cls(e, exception=True, bases=b, fields={'pos_in_stream': 'int', 'line': 'int', 'column': 'int', 'allowed': 'set[str]'} if e == 'UnexpectedCharacters' else None)

    reg.contract('Token.__init__', assumed=True, kind='method',
                 params={'self': 'Token', 'type': 'str', 'value': 'text', 'start_pos': 'int', 'line': 'int', 'column': 'int'},
                 modifies=['self'],
                 ensures=['self.type == type', 'self.value == value', 'self.start_pos == start_pos', 'self.line == line', 'self.column == column'])
    reg.contract('UnexpectedCharacters.__init__', assumed=True, kind='method',
                 params={'self': 'UnexpectedCharacters', 'seq': 'text', 'lex_pos': 'int', 'line': 'int', 'column': 'int', 'allowed': 'set[str]',
                         'token_history': 'any', 'state': 'any', 'terminals_by_name': 'any'},
                 requires=['0 <= lex_pos', 'lex_pos < len(seq)'],      # seq[lex_pos] must exist (exceptions.py: self.char = seq[lex_pos])
                 modifies=['self'],
                 ensures=['self.pos_in_stream == lex_pos', 'self.line == line', 'self.column == column', 'self.allowed is allowed'])
    # the lazily built scanner (C10 looks at the write-once discipline; here only what next_token needs)
    reg.contract('lark.lexer:BasicLexer.scanner', assumed=True, kind='property',
                 params={'self': 'BasicLexer'}, returns='Scanner', modifies=['self'],
                 ensures=['self.ignore_types is old(self.ignore_types)', 'self.newline_types is old(self.newline_types)',
                          'self._scanner is result',
                          'implies(old(self._scanner) is not None, self.callback is old(self.callback) and result is old(self._scanner))'])
    # scanner contract, resting on the assumed contract of `re` (C07 verifies Scanner.match against it):
    # a match is a non-empty slice of the buffer at pos, inside the window; a terminal outside newline_types never matches a newline (C06/F10)
    reg.contract('lark.lexer:BasicLexer.match', assumed=True, kind='method',
                 params={'self': 'BasicLexer', 'text': 'TextSlice', 'pos': 'int'}, returns='opt[tuple[text,str]]',
                 requires=['0 <= pos', 'pos <= text.end', 'text.end <= len(text.text)'],
                 modifies=['self'],
                 ensures=['self.ignore_types is old(self.ignore_types)', 'self.newline_types is old(self.newline_types)',
                          'self._scanner is not None',
                          'implies(old(self._scanner) is not None, self.callback is old(self.callback) and self._scanner is old(self._scanner))',
                          'implies(result is not None, ISSLICE(val(result)[0], text.text, pos) and len(val(result)[0]) >= 1 '
                          'and pos + len(val(result)[0]) <= text.end '
                          'and (val(result)[1] in self.newline_types or NLC(val(result)[0], 0, len(val(result)[0])) == 0))'])

    S = 'lex_state'
    C = 'lex_state.line_ctr'
    WIN = ['0 <= %s.text.start' % S, '%s.text.start <= %s.char_pos' % (S, C), '%s.char_pos <= %s.text.end' % (C, S),
           '%s.text.end <= len(%s)' % (S, TXT)]
    reg.contract('lark.lexer:BasicLexer.next_token', serves=['C06', 'C07', 'C08', 'C15', 'C10'], kind='method',
                 params={'self': 'BasicLexer', 'lex_state': 'LexerState', 'parser_state': 'any'}, returns='Token',
                 requires=textmodel.INV(C, TXT) + WIN,
                 modifies=['self', 'lex_state', 'lex_state.line_ctr'],
                 ensures=textmodel.INV(C, TXT) + WIN + [
                     'lex_state.text is old(lex_state.text)', 'lex_state.line_ctr is old(lex_state.line_ctr)',
                     # the token is a non-empty slice of the buffer, starting at or after the old position, ending at the new position
                     'result.start_pos >= old(%s.char_pos)' % C, 'result.end_pos == %s.char_pos' % C,
                     'result.end_pos == result.start_pos + len(result.value)', 'len(result.value) >= 1',
                     'ISSLICE(result.value, %s, result.start_pos)' % TXT,
                     # line/column are those of start_pos in the whole buffer; end_line/end_column those of end_pos
                     'result.line == %s' % LINE('result.start_pos'), 'result.column == %s' % COL('result.start_pos'),
                     'result.end_line == %s' % LINE('result.end_pos'), 'result.end_column == %s' % COL('result.end_pos'),
                     'lex_state.last_token is result',
                     # a token of an ignored type is never returned - also when a callback (keyword detection) retyped it
                     'result.type not in self.ignore_types'],
                 raises={'EOFError': ['%s.char_pos == %s.text.end' % (C, S)] + textmodel.INV(C, TXT),
                         # raised at the first offset where no terminal matches, with exact coordinates
                         'UnexpectedCharacters': ['exc.pos_in_stream == %s.char_pos' % C, '%s.char_pos < %s.text.end' % (C, S),
                                                  'exc.line == %s' % LINE(C + '.char_pos'), 'exc.column == %s' % COL(C + '.char_pos'),
                                                  # C08: what was allowed here covers EVERY non-ignored terminal of this lexer (keywords folded into a
                                                  # regexp terminal included), and no ignored one
                                                  'all(implies(self.terminals[i].name not in self.ignore_types, self.terminals[i].name in exc.allowed) for i in range(0, len(self.terminals)))',
                                                  'all(implies(k in exc.allowed and k != "<END-OF-FILE>", k not in self.ignore_types) for k in STR)'],
                         'LexError': []},
                 loops={0: dict(inv=textmodel.INV(C, TXT) + WIN + [
                     'lex_state.text is old(lex_state.text)', 'lex_state.line_ctr is old(lex_state.line_ctr)', 'line_ctr is lex_state.line_ctr',
                     '%s.char_pos >= old(%s.char_pos)' % (C, C),
                     'self.ignore_types is old(self.ignore_types)', 'self.newline_types is old(self.newline_types)'],
                     # C07 tiling: the loop goes round again ONLY past a match whose (final) type is ignored - no other text is ever skipped
                     step=['ignored'],
                     decreases='%s.text.end - %s.char_pos' % (S, C))},
                 ghost={'args:line_ctr.feed#0': {'text': TXT},
                        # lexer callbacks (UnlessCallback / CallChain are verified against this; user callbacks are assumed to respect it):
                        # they may retype the token but keep value and positions
                        'callv:self.callback[t.type]#0': dict(returns='any', modifies=[0], assumes=[
                            'implies(isinstance(result, Token), cast(result, Token).value == old(arg0.value) and cast(result, Token).start_pos == old(arg0.start_pos) '
                            'and cast(result, Token).end_pos == old(arg0.end_pos) and cast(result, Token).line == old(arg0.line) and cast(result, Token).column == old(arg0.column) '
                            'and cast(result, Token).end_line == old(arg0.end_line) and cast(result, Token).end_column == old(arg0.end_column))'])},
                 names={'Token': ('class', 'Token'), 'UnexpectedCharacters': ('class', 'UnexpectedCharacters')}, replay=_replay)


def _nl_region(fn):
    import ast as _ast
    for s in _ast.walk(fn):
        if isinstance(s, _ast.If) and "'\\n'" in _ast.unparse(s.test) and 'token' in _ast.unparse(s.test):
            return [s]
    return None


def _finalise_region(fn):
    """the statements that complete a delayed token's coordinates when the scanner reaches its last character"""
    import ast as _ast
    for s in _ast.walk(fn):
        if isinstance(s, _ast.If) and _ast.unparse(s.test) == 'token is not None':
            out = []
            for b in s.body:
                if isinstance(b, _ast.Assign) and isinstance(b.targets[0], _ast.Attribute) and _ast.unparse(b.targets[0].value) == 'token':
                    out.append(b)
                else:
                    break
            return out or None
    return None


def _newtoken_region(k):
    def sel(fn):
        import ast as _ast
        hits = [s for s in _ast.walk(fn) if isinstance(s, _ast.Assign) and isinstance(s.value, _ast.Call) and _ast.unparse(s.value.func) == 'Token']
        hits.sort(key=lambda s: (s.lineno, s.col_offset))
        return [hits[k]] if k < len(hits) else None
    return sel


def _skip_region(fn):
    import ast as _ast
    for s in _ast.walk(fn):
        if isinstance(s, _ast.If) and _ast.unparse(s.test) == 'p == s.line_ctr.char_pos':
            return [s]
    return None


def register_recovery(reg):
    """on_error recovery of the LALR front end: skipping the unmatched character keeps the line counter exact (str and bytes)"""
    reg.contract('lark.parsers.lalr_parser:LALR_Parser.parse#skip', serves=['C06', 'C15'], region=_skip_region,
                 params={'s': 'LexerState', 'p': 'int'}, modifies=['s.line_ctr'],
                 requires=textmodel.INV('s.line_ctr', 's.text.text') + ['0 <= p', 'p < len(s.text.text)'],      # p: offset of the unmatched character
                 ghost={'ensures_fall': textmodel.INV('s.line_ctr', 's.text.text') +
                        ['implies(old(s.line_ctr.char_pos) == p, s.line_ctr.char_pos == p + 1)',
                         'implies(old(s.line_ctr.char_pos) != p, s.line_ctr.char_pos == old(s.line_ctr.char_pos))'],
                        'args:s.line_ctr.feed#0': {'text': 's.text.text'}},
                 replay=lambda model: native_file('bounded/c15_agree.py'))


def register_dynamic(reg):
    """the per-character line/column bookkeeping of the dynamic Earley lexers, for both element types of the input stream"""
    for kind, ty, nl in (('str', 'str', "token == '\\n'"), ('bytes', 'int', 'token == 10')):
        reg.contract('lark.parsers.xearley:Parser._parse#newline-%s' % kind, serves=['C06', 'C15'], region=_nl_region,
                     params={'token': ty, 'text_line': 'int', 'text_column': 'int'},
                     ghost={'ensures_fall': [
                         # a newline character starts a new line at column 1; anything else advances the column - whatever the buffer kind
                         'text_line == old(text_line) + (1 if %s else 0)' % nl,
                         'text_column == (1 if %s else old(text_column) + 1)' % nl]},
                     replay=_replay)

    reg.cls('XToken', fields={'type': 'any', 'value': 'any', 'start_pos': 'opt[int]', 'line': 'opt[int]', 'column': 'opt[int]',
                              'end_line': 'opt[int]', 'end_column': 'opt[int]', 'end_pos': 'opt[int]'})
    reg.contract('XToken.__init__', assumed=True, kind='method',
                 params={'self': 'XToken', 'type': 'any', 'value': 'any', 'start_pos': 'opt[int]', 'line': 'opt[int]', 'column': 'opt[int]',
                         'end_line': 'opt[int]', 'end_column': 'opt[int]', 'end_pos': 'opt[int]'},
                 ghost={'defaults': {'start_pos': None, 'line': None, 'column': None, 'end_line': None, 'end_column': None, 'end_pos': None}},
                 modifies=['self'],
                 ensures=['self.%s == %s' % (f, f) for f in ('type', 'value', 'start_pos', 'line', 'column', 'end_line', 'end_column', 'end_pos')])
    for k, what in ((0, 'longest match'), (1, 'shorter matches of complete_lex')):
        reg.contract('lark.parsers.xearley:Parser._parse.<locals>.scan#token%d' % k, serves=['C06'], region=_newtoken_region(k),
                     params={'NAME': 'any', 'TEXT': 'any', 'text_line': 'int', 'text_column': 'int', 'i': 'int'},
                     # every token the scanner creates (%s) starts at the scanner's current offset and running coordinate
                     ghost={'ensures_fall': ['val(t.start_pos) == i', 'val(t.line) == text_line', 'val(t.column) == text_column', 't.value == TEXT']},
                     names={'Token': ('class', 'XToken'), 'expr:item.expect.name': ('sv_env', 'NAME'), 'expr:m.group(0)': ('sv_env', 'TEXT')},
                     replay=_replay)
    reg.contract('lark.parsers.xearley:Parser._parse.<locals>.scan#finalise', serves=['C06'], region=_finalise_region,
                 params={'token': 'XToken', 'text_line': 'int', 'text_column': 'int', 'i': 'int'}, modifies=['token'],
                 # delayed_matches[i + 1] holds the tokens whose match ended at offset i + 1 (character i is their last): that offset is end_pos,
                 # and the end coordinate is "one past character i on its own line" (the dynamic family's convention)
                 ghost={'ensures_fall': ['token.end_pos is not None and val(token.end_pos) == i + 1',
                                         'token.end_line is not None and val(token.end_line) == text_line',
                                         'token.end_column is not None and val(token.end_column) == text_column + 1']},
                 replay=_replay)

    # ---- positions of tree nodes: from the first to the last child that takes up space (containers of inlined rules included)
    POS = ('line', 'column', 'start_pos', 'end_line', 'end_column', 'end_pos', 'container_line', 'container_column', 'container_start_pos',
           'container_end_line', 'container_end_column', 'container_end_pos')
    # Token and Meta both carry positions; an attribute that was never set is modelled as None (dynamic: hasattr / getattr-with-default)
    reg.cls('Positioned', fields={k: 'opt[int]' for k in POS}, dynamic=POS)
    reg.cls('Meta', bases=['Positioned'], fields={'empty': 'any'})
    reg.cls('PTree', fields={'meta': 'Meta'})
    reg.cls('PropagatePositions', target='lark.parse_tree_builder:PropagatePositions', fields={'node_builder': 'any', 'node_filter': 'any'})
    reg.specfun('FIRSTM', [('ch', 'list[any]')], 'opt[Positioned]', doc='position carrier of the first child that takes up space (token or non-empty tree)')
    reg.specfun('LASTM', [('ch', 'list[any]')], 'opt[Positioned]')
    reg.contract('lark.parse_tree_builder:PropagatePositions._pp_get_meta', assumed=True, kind='method', pure=True,
                 params={'self': 'PropagatePositions', 'children': 'list[any]'}, returns='opt[Positioned]', ensures=['result == FIRSTM(children)'])
    reg.contract('pp_last', assumed=True, pure=True, params={'children': 'list[any]'}, ghost_params=['children'], returns='opt[Positioned]', ensures=['result == LASTM(children)'])
    C = lambda m, f, g: '(val(%s.%s) if %s.%s is not None else val(%s.%s))' % (m, f, m, f, m, g)      # container value if present, else own
    F, Lm, R = 'val(FIRSTM(children))', 'val(LASTM(children))', 'cast(result, PTree).meta'
    def both(carrier, res_prefix, fields, cond):
        return ' and '.join('implies(%s, val(%s.%s%s) == old(%s))' % (cond, R, res_prefix, f, C(carrier, 'container_' + f, f)) for f in fields)
    ST, EN = ('line', 'column', 'start_pos'), ('end_line', 'end_column', 'end_pos')
    reg.contract('lark.parse_tree_builder:PropagatePositions.__call__', serves=['C06'], kind='method',
                 params={'self': 'PropagatePositions', 'children': 'list[any]', 'RES': 'any'}, returns='any',
                 requires=[  # tokens and non-empty metas that reach here carry their own coordinates (position-less Tokens are outside the property)
                           'implies(FIRSTM(children) is not None, %s)' % ' and '.join('%s.%s is not None' % (F, f) for f in ST),
                           'implies(LASTM(children) is not None, %s)' % ' and '.join('%s.%s is not None' % (Lm, f) for f in EN)],
                 ghost={'callv:self.node_builder#0': dict(returns='any', assumes=['result == RES'])},
                 modifies=['cast(RES, PTree).meta'],
                 ensures=[
                     'result == RES',
                     # the container span follows the children this wrapper sees (it sits outside the child filter): widened on every call
                     both(F, 'container_', ST, 'isinstance(result, PTree) and FIRSTM(children) is not None'),
                     both(Lm, 'container_', EN, 'isinstance(result, PTree) and LASTM(children) is not None'),
                     # a node without a position starts at the start of its first child's container and ends at the end of its last child's
                     both(F, '', ST, 'isinstance(result, PTree) and FIRSTM(children) is not None and old(%s.line) is None' % R),
                     both(Lm, '', EN, 'isinstance(result, PTree) and LASTM(children) is not None and old(%s.end_line) is None' % R),
                     # a node that already has a position (an inlined ?rule) keeps it
                     'implies(isinstance(result, PTree) and old(%s.line) is not None, %s)' % (R, ' and '.join('%s.%s == old(%s.%s)' % (R, f, R, f) for f in ST)),
                     'implies(isinstance(result, PTree) and old(%s.end_line) is not None, %s)' % (R, ' and '.join('%s.%s == old(%s.%s)' % (R, f, R, f) for f in EN)),
                     # nothing is marked non-empty unless it got a position
                     'implies(isinstance(result, PTree) and FIRSTM(children) is None and LASTM(children) is None, %s.empty == old(%s.empty))' % (R, R)],
                 names={'Tree': ('class', 'PTree'), 'expr:self._pp_get_meta(reversed(children))': ('contract', 'pp_last')},
                 replay=_replay)
