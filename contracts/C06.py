"""C06 - token and tree positions are exact source coordinates."""
from pyvc.util import mget, native_file
from . import textmodel

PROPERTY = 'C06'
TRUSTED = list(textmodel.TRUSTED)
ASSUMPTIONS = []


BOUNDED = [dict(name='crosscheck.positions', function='LineCounter.feed/advance_to/from_text_slice, BasicLexer.next_token via Lark.lex',
                code=native_file('bounded/c06_positions.py'),
                bound={'quick': 'all str/bytes texts over {a, newline} of length <= 5 x all (advance, feed) splits; 3 grammars x 2 lexers x str/bytes x texts of length <= 4 x 3 windows',
                       'thorough': 'texts of length <= 7; lexed texts of length <= 6'},
                note='CPython cross-check of the executable contracts (engine self-test) and replay search; not counted as obligations')]


def _replay(model):
    return native_file('bounded/c06_positions.py')


def register(reg):
    textmodel.register_text(reg)
    textmodel.register_linecounter(reg, serves=['C06', 'C15', 'C14'])
    for c in reg.contracts.values():
        if not c.assumed:
            c.replay = _replay

    register_lexer(reg)


TXT = 'lex_state.text.text'
LINE = lambda p: '(1 + NLC(%s, 0, %s))' % (TXT, p)
COL = lambda p: '(%s - (LNL(%s, 0, %s) + 1) + 1)' % (p, TXT, p)


def register_lexer(reg):
    reg.cls('Token', target='lark.lexer:Token',
            fields={'type': 'str', 'value': 'text', 'start_pos': 'int', 'line': 'int', 'column': 'int',
                    'end_line': 'int', 'end_column': 'int', 'end_pos': 'int'})
    reg.cls('LexerState', target='lark.lexer:LexerState',
            fields={'text': 'TextSlice', 'line_ctr': 'LineCounter', 'last_token': 'opt[Token]'})
    reg.cls('Scanner', target='lark.lexer:Scanner', fields={'allowed_types': 'set[str]'})
    reg.cls('BasicLexer', target='lark.lexer:BasicLexer',
            fields={'callback': 'dict[str,any]', 'ignore_types': 'set[str]', 'newline_types': 'set[str]',
                    'terminals_by_name': 'any', '_scanner': 'opt[Scanner]'})
    for e, b in (('LarkError', ['Exception']), ('LexError', ['LarkError']), ('UnexpectedInput', ['LarkError']),
                 ('UnexpectedCharacters', ['LexError', 'UnexpectedInput'])):
        reg.cls(e, exception=True, bases=b, fields={'pos_in_stream': 'int', 'line': 'int', 'column': 'int', 'allowed': 'set[str]'} if e == 'UnexpectedCharacters' else None)

    reg.contract('Token.__init__', assumed=True, kind='method',
                 params={'self': 'Token', 'type': 'str', 'value': 'text', 'start_pos': 'int', 'line': 'int', 'column': 'int'},
                 modifies=['self'],
                 ensures=['self.type == type', 'self.value == value', 'self.start_pos == start_pos', 'self.line == line', 'self.column == column'])
    reg.contract('UnexpectedCharacters.__init__', assumed=True, kind='method',
                 params={'self': 'UnexpectedCharacters', 'seq': 'text', 'lex_pos': 'int', 'line': 'int', 'column': 'int', 'allowed': 'set[str]',
                         'token_history': 'any', 'state': 'any', 'terminals_by_name': 'any'},
                 requires=['0 <= lex_pos', 'lex_pos < len(seq)'],      # seq[lex_pos] must exist (exceptions.py: self.char = seq[lex_pos])
                 modifies=['self'],
                 ensures=['self.pos_in_stream == lex_pos', 'self.line == line', 'self.column == column', 'self.allowed is allowed'])
    # the lazily built scanner (C10 looks at the write-once discipline; here only what next_token needs)
    reg.contract('lark.lexer:BasicLexer.scanner', assumed=True, kind='property',
                 params={'self': 'BasicLexer'}, returns='Scanner', modifies=['self'],
                 ensures=['self.ignore_types is old(self.ignore_types)', 'self.newline_types is old(self.newline_types)',
                          'self._scanner is result',
                          'implies(old(self._scanner) is not None, self.callback is old(self.callback) and result is old(self._scanner))'])
    # scanner contract, resting on the assumed contract of `re` (C07 verifies Scanner.match against it):
    # a match is a non-empty slice of the buffer at pos, inside the window; a terminal outside newline_types never matches a newline (C06/F10)
    reg.contract('lark.lexer:BasicLexer.match', assumed=True, kind='method',
                 params={'self': 'BasicLexer', 'text': 'TextSlice', 'pos': 'int'}, returns='opt[tuple[text,str]]',
                 requires=['0 <= pos', 'pos <= text.end', 'text.end <= len(text.text)'],
                 modifies=['self'],
                 ensures=['self.ignore_types is old(self.ignore_types)', 'self.newline_types is old(self.newline_types)',
                          'self._scanner is not None',
                          'implies(old(self._scanner) is not None, self.callback is old(self.callback) and self._scanner is old(self._scanner))',
                          'implies(result is not None, ISSLICE(val(result)[0], text.text, pos) and len(val(result)[0]) >= 1 '
                          'and pos + len(val(result)[0]) <= text.end '
                          'and (val(result)[1] in self.newline_types or NLC(val(result)[0], 0, len(val(result)[0])) == 0))'])

    S = 'lex_state'
    C = 'lex_state.line_ctr'
    WIN = ['0 <= %s.text.start' % S, '%s.text.start <= %s.char_pos' % (S, C), '%s.char_pos <= %s.text.end' % (C, S),
           '%s.text.end <= len(%s)' % (S, TXT)]
    reg.contract('lark.lexer:BasicLexer.next_token', serves=['C06', 'C07', 'C08', 'C15', 'C10'], kind='method',
                 params={'self': 'BasicLexer', 'lex_state': 'LexerState', 'parser_state': 'any'}, returns='Token',
                 requires=textmodel.INV(C, TXT) + WIN,
                 modifies=['self', 'lex_state', 'lex_state.line_ctr'],
                 ensures=textmodel.INV(C, TXT) + WIN + [
                     'lex_state.text is old(lex_state.text)', 'lex_state.line_ctr is old(lex_state.line_ctr)',
                     # the token is a non-empty slice of the buffer, starting at or after the old position, ending at the new position
                     'result.start_pos >= old(%s.char_pos)' % C, 'result.end_pos == %s.char_pos' % C,
                     'result.end_pos == result.start_pos + len(result.value)', 'len(result.value) >= 1',
                     'ISSLICE(result.value, %s, result.start_pos)' % TXT,
                     # line/column are those of start_pos in the whole buffer; end_line/end_column those of end_pos
                     'result.line == %s' % LINE('result.start_pos'), 'result.column == %s' % COL('result.start_pos'),
                     'result.end_line == %s' % LINE('result.end_pos'), 'result.end_column == %s' % COL('result.end_pos'),
                     'lex_state.last_token is result', 'result.type not in self.ignore_types or True'],
                 raises={'EOFError': ['%s.char_pos == %s.text.end' % (C, S)] + textmodel.INV(C, TXT),
                         # raised at the first offset where no terminal matches, with exact coordinates
                         'UnexpectedCharacters': ['exc.pos_in_stream == %s.char_pos' % C, '%s.char_pos < %s.text.end' % (C, S),
                                                  'exc.line == %s' % LINE(C + '.char_pos'), 'exc.column == %s' % COL(C + '.char_pos')],
                         'LexError': []},
                 loops={0: dict(inv=textmodel.INV(C, TXT) + WIN + [
                     'lex_state.text is old(lex_state.text)', 'lex_state.line_ctr is old(lex_state.line_ctr)', 'line_ctr is lex_state.line_ctr',
                     '%s.char_pos >= old(%s.char_pos)' % (C, C),
                     'self.ignore_types is old(self.ignore_types)', 'self.newline_types is old(self.newline_types)'],
                     decreases='%s.text.end - %s.char_pos' % (S, C))},
                 ghost={'args:line_ctr.feed#0': {'text': TXT},
                        # lexer callbacks (UnlessCallback / CallChain are verified against this; user callbacks are assumed to respect it):
                        # they may retype the token but keep value and positions
                        'callv:self.callback[t.type]#0': dict(returns='any', modifies=[0], assumes=[
                            'implies(isinstance(result, Token), cast(result, Token).value == old(arg0.value) and cast(result, Token).start_pos == old(arg0.start_pos) '
                            'and cast(result, Token).end_pos == old(arg0.end_pos) and cast(result, Token).line == old(arg0.line) and cast(result, Token).column == old(arg0.column) '
                            'and cast(result, Token).end_line == old(arg0.end_line) and cast(result, Token).end_column == old(arg0.end_column))'])},
                 names={'Token': ('class', 'Token'), 'UnexpectedCharacters': ('class', 'UnexpectedCharacters')}, replay=_replay)
