"""C09 - repetition operators match exactly the stated counts."""
PROPERTY = 'C09'
from pyvc.util import mget

NATIVE_SMALL_FACTORS = r"""
import json, sys
from lark.utils import small_factors
def bad(n, mf):
    try:
        r = small_factors(n, mf)
    except BaseException as e:
        return 'raised %r' % (e,)
    x = 1
    for a, b in r: x = x * a + b
    if x != n: return 'fold gives %d, not n' % x
    if len(r) < 1: return 'empty result'
    if any(a + b > mf or b < 0 or a < 0 for a, b in r): return 'pair exceeds max_factor: %r' % (r,)
    if any(a < 2 for a, b in r[1:]): return 'factor < 2: %r' % (r,)
    return None
cands = %(cands)s + [(n, mf) for mf in range(3, 9) for n in range(0, 120)]
for n, mf in cands:
    if n is None or mf is None or n < 0 or mf <= 2 or n > 10**6: continue
    why = bad(n, mf)
    if why:
        print(json.dumps({'fails': True, 'input': {'n': n, 'max_factor': mf}, 'observed': why, 'required': 'FOLD(result) == n, pairs within max_factor'}))
        sys.exit(0)
print(json.dumps({'fails': False, 'tried': len(cands)}))
"""


def replay_small_factors(model):
    return NATIVE_SMALL_FACTORS.replace('%(cands)s', repr([(mget(model, 'n'), mget(model, 'max_factor'))]))


NATIVE_REPEATS = None


def replay_repeats(model):
    from pyvc.util import native_file
    return native_file('bounded/c09_repeats.py')


BOUNDED = [dict(name='standin.repeats-end-to-end', function='the whole pipeline around the kernels: grammar loading, template expansion, SimplifyRule/compile, LALR and Earley on the generated helper rules; re semantics of the produced quantifiers',
                code=__import__('pyvc.util', fromlist=['native_file']).native_file('bounded/c09_repeats.py'),
                bound={'quick': '5 item kinds x 20 (n, m) pairs up to 211 x ~8 repetition counts around the bounds x LALR/Earley; ?,*,+; 12 terminal items x 12 quantifiers x 2 engines',
                       'thorough': '5 item kinds x ~190 (n, m) pairs up to 600 x counts around the bounds; 12 terminal items x 31 quantifiers'},
                note='bounded: stands in for the unverified pipeline stages; never counted as proved')]


def register(reg):
    register_small_factors(reg)
    register_repeats(reg)


def register_small_factors(reg):
    reg.specfun('FOLD', [('xs', 'seq[tuple[int,int]]')], 'int',
                body='1 if len(xs) <= 0 else FOLD(xs[:len(xs)-1]) * xs[len(xs)-1][0] + xs[len(xs)-1][1]',
                doc='n = 1; for a, b in xs: n = n*a + b   (docstring of small_factors)')

    reg.contract('lark.utils:small_factors', serves=['C09'],
                 params={'n': 'int', 'max_factor': 'int'}, returns='list[tuple[int,int]]',
                 requires=['n >= 0', 'max_factor > 2'],
                 ensures=['FOLD(seq(result)) == n', 'len(result) >= 1', 'fresh(result)',
                          'all(result[i][0] + result[i][1] <= max_factor and result[i][1] >= 0 and result[i][0] >= 0 for i in range(0, len(result)))',
                          'all(result[i][0] >= 2 for i in range(1, len(result)))',
                          'implies(n >= 1, result[0][0] >= 1)'],
                 decreases='n',
                 loops={0: dict(inv=['2 <= a', 'a <= max_factor', 'n >= 1'])},
                 replay=replay_small_factors,
                 names={'small_factors': ('contract', 'lark.utils:small_factors')})


def register_repeats(reg):
    """Count algebra of the rule trees EBNF_to_BNF builds for x~n..m.

    LO(t)/HI(t): the tree or symbol t matches exactly the numbers LO(t)..HI(t) of consecutive occurrences of the repeated item - all
    of them and nothing else.  The grammar semantics of the two tree constructors is the (assumed, definitional) contract of ST:
      expansion  [c0 .. ck]  = concatenation: counts add up                      (SUML/SUMH over the child list)
      expansions [a0 .. ak]  = alternatives: the union of the intervals, which must be free of gaps (a proof obligation at every call)
    and a fresh helper non-terminal matches what its expansions match (_add_rule)."""
    reg.specfun('LO', [('t', 'any')], 'int')
    reg.specfun('HI', [('t', 'any')], 'int')
    reg.specfun('SUML', [('xs', 'seq[any]')], 'int', body='0 if len(xs) <= 0 else SUML(xs[:len(xs)-1]) + LO(xs[len(xs)-1])')
    reg.specfun('SUMH', [('xs', 'seq[any]')], 'int', body='0 if len(xs) <= 0 else SUMH(xs[:len(xs)-1]) + HI(xs[len(xs)-1])')
    reg.specfuns['SUML'].additive = True
    reg.specfuns['SUMH'].additive = True
    # n copies of one symbol: n times its count (induction on n)
    reg.lemma('suml_rep', [('x', 'any'), ('n', 'int')], requires=['n >= 0'], ensures=['SUML([x] * n) == n * LO(x)', 'SUMH([x] * n) == n * HI(x)'],
              induct='n', hints=[{'x': 'x', 'n': 'n - 1'}], serves=['C09'])
    reg.lemmas['suml_rep'].on_rep = True

    ASC = ('all(LO(alts[j]) <= HI(alts[j]) for j in range(0, len(alts))) and '
           'all(LO(alts[j]) <= LO(alts[j + 1]) and LO(alts[j + 1]) <= HI(alts[j]) + 1 and HI(alts[j]) <= HI(alts[j + 1]) for j in range(0, len(alts) - 1))')
    DESC = ('all(LO(alts[j]) <= HI(alts[j]) for j in range(0, len(alts))) and '
            'all(LO(alts[j + 1]) <= LO(alts[j]) and LO(alts[j]) <= HI(alts[j + 1]) + 1 and HI(alts[j + 1]) <= HI(alts[j]) for j in range(0, len(alts) - 1))')
    reg.contract('ST.expansion', assumed=True, pure=True, params={'data': 'str', 'children': 'list[any]'}, returns='any',
                 ensures=['LO(result) == SUML(seq(children))', 'HI(result) == SUMH(seq(children))'])
    # alternatives listed in ascending (default) or descending order of what they match; no gap between neighbours
    reg.contract('ST.expansions', assumed=True, pure=True, params={'data': 'str', 'alts': 'list[any]'}, returns='any',
                 requires=['len(alts) >= 1', ASC], ensures=['LO(result) == LO(alts[0])', 'HI(result) == HI(alts[len(alts) - 1])'])
    reg.contract('ST.expansions.desc', assumed=True, pure=True, params={'data': 'str', 'alts': 'list[any]'}, returns='any',
                 requires=['len(alts) >= 1', DESC], ensures=['LO(result) == LO(alts[len(alts) - 1])', 'HI(result) == HI(alts[0])'])

    reg.cls('EBNF', target='lark.load_grammar:EBNF_to_BNF', fields={'rules_cache': 'dict[any,any]', 'new_rules': 'list[any]', 'i': 'int', 'prefix': 'str', 'rule_options': 'any'})
    # representation invariant of the helper-rule cache: an entry filed under a repeat-rule key matches what that key stands for
    INV = 'all(implies(PROM(k), GOOD(k, v)) for k, v in self.rules_cache.items())'
    reg.specfun('PROM', [('k', 'any')], 'bool', doc='the cache key is one of the two repeat-rule key shapes')
    reg.specfun('GOOD', [('k', 'any'), ('v', 'any')], 'bool', doc='the cached non-terminal v matches what the key k stands for')
    T5, T6 = 'tuple[int,int,any,any,any,bool]', 'tuple[int,int,any,any,str,any,bool]'      # (a, b, target, atom, ["opt",] filter flags of atom, keep_all_tokens)
    reg.axiom('good.repeat', [('k', T5), ('v', 'any')],
              'PROM(cast(k, any)) and GOOD(cast(k, any), v) == (LO(v) == k[0] * LO(k[2]) + k[1] * LO(k[3]) and HI(v) == k[0] * HI(k[2]) + k[1] * HI(k[3]))',
              ['GOOD(cast(k, any), v)'])
    reg.axiom('good.repeat_opt', [('k', T6), ('v', 'any')],
              'PROM(cast(k, any)) and GOOD(cast(k, any), v) == (LO(v) == 0 and HI(v) == k[0] * LO(k[2]) + k[1] * LO(k[3]) - 1)',
              ['GOOD(cast(k, any), v)'])
    reg.axiom('good.ext', [('k', 'any'), ('v', 'any'), ('w', 'any')], 'implies(LO(v) == LO(w) and HI(v) == HI(w), GOOD(k, v) == GOOD(k, w))', [['GOOD(k, v)', 'GOOD(k, w)']])
    reg.contract('lark.load_grammar:EBNF_to_BNF._keep_all_tokens', assumed=True, kind='method', pure=True, params={'self': 'EBNF'}, returns='bool')
    reg.contract('lark.load_grammar:EBNF_to_BNF._filtered_terminals', assumed=True, kind='method', pure=True, params={'self': 'EBNF', 'expr': 'any'}, returns='any')
    reg.contract('lark.load_grammar:EBNF_to_BNF._name_rule', assumed=True, kind='method', params={'self': 'EBNF', 'inner': 'str'}, returns='str', modifies=['self'],
                 ensures=['self.rules_cache is old(self.rules_cache)', 'self.new_rules is old(self.new_rules)', 'self.rule_options == old(self.rule_options)'])      # only the counter self.i moves
    # definitional: the non-terminal created for a helper rule matches what the rule's expansions match (name freshness: _name_rule's counter, assumed)
    reg.contract('NonTerminal', assumed=True, pure=True, params={'name': 'str', 'defn': 'any'}, ghost_params=['defn'], returns='any',
                 ensures=['LO(result) == LO(defn)', 'HI(result) == HI(defn)'])
    reg.contract('lark.load_grammar:EBNF_to_BNF._add_rule', serves=['C09'], kind='method',
                 params={'self': 'EBNF', 'key': 'any', 'name': 'str', 'expansions': 'any'}, returns='any', modifies=['self.rules_cache', 'self.new_rules'],
                 requires=[INV, 'implies(PROM(key), GOOD(key, expansions))'],
                 ensures=[INV, 'LO(result) == LO(expansions)', 'HI(result) == HI(expansions)',
                          # the rule is recorded under its name, and the cache gains exactly this entry
                          'len(self.new_rules) == old(len(self.new_rules)) + 1',
                          'self.new_rules[len(self.new_rules) - 1] == cast((name, expansions, self.rule_options), any)',
                          'key in self.rules_cache and self.rules_cache[key] == result',
                          'all(implies(k != key, (k in self.rules_cache) == old(k in self.rules_cache)) for k in ANYV)'],
                 ghost={'args:NonTerminal#0': {'defn': 'expansions'}}, names={'NonTerminal': ('contract', 'NonTerminal')}, replay=replay_repeats)

    COMMON = dict(serves=['C09'], kind='method', replay=replay_repeats,
                  names={'ST': ('dispatch', {'expansion': 'ST.expansion', 'expansions': 'ST.expansions'})})
    reg.contract('lark.load_grammar:EBNF_to_BNF._add_repeat_rule',
                 params={'self': 'EBNF', 'a': 'int', 'b': 'int', 'target': 'any', 'atom': 'any'}, returns='any',
                 requires=[INV, 'a >= 0', 'b >= 0', 'LO(target) == HI(target)', 'LO(atom) == HI(atom)'],      # both match an exact number of occurrences
                 modifies=['self', 'self.rules_cache', 'self.new_rules'],
                 # `a` times what target matches, then `b` times what atom matches
                 ensures=[INV, 'self.rules_cache is old(self.rules_cache)', 'self.new_rules is old(self.new_rules)', 'LO(result) == a * LO(target) + b * LO(atom)', 'HI(result) == a * HI(target) + b * HI(atom)'], **COMMON)
    reg.contract('lark.load_grammar:EBNF_to_BNF._add_repeat_opt_rule',
                 params={'self': 'EBNF', 'a': 'int', 'b': 'int', 'target': 'any', 'target_opt': 'any', 'atom': 'any'}, returns='any',
                 # target matches exactly n, target_opt 0 .. n-1, atom exactly once
                 requires=[INV, 'a >= 0', 'b >= 0', 'a + b >= 1', 'LO(target) == HI(target)', 'LO(target) >= 1', 'LO(target_opt) == 0', 'HI(target_opt) == LO(target) - 1',
                           'LO(atom) == 1', 'HI(atom) == 1'],
                 modifies=['self', 'self.rules_cache', 'self.new_rules'],
                 ensures=[INV, 'self.rules_cache is old(self.rules_cache)', 'self.new_rules is old(self.new_rules)', 'LO(result) == 0', 'HI(result) == a * LO(target) + b - 1'],
                 ghost={'hint:ST#0': dict(isolate=True, steps=[
                     'a >= 0 and b >= 0 and a + b >= 1 and LO(target) >= 1 and len(alts) == a + b',
                     # closed forms of the two groups of alternatives: target * j target_opt (j < a), then target * a atom * i (i < b)
                     'all(LO(alts[j]) == j * LO(target) and HI(alts[j]) == j * LO(target) + LO(target) - 1 for j in range(0, a))',
                     'all(LO(alts[a + i]) == a * LO(target) + i and HI(alts[a + i]) == a * LO(target) + i for i in range(0, b))',
                     # the same, neighbour to neighbour (no products: what the chain condition needs)
                     'all(HI(alts[j]) == LO(alts[j]) + LO(target) - 1 for j in range(0, a))',
                     'all(LO(alts[j + 1]) == LO(alts[j]) + LO(target) for j in range(0, a - 1))',
                     'all(HI(alts[k]) == LO(alts[k]) for k in range(a, a + b))',
                     'all(LO(alts[k + 1]) == LO(alts[k]) + 1 for k in range(a, a + b - 1))',
                     'implies(a >= 1 and b >= 1, LO(alts[a]) == HI(alts[a - 1]) + 1)',
                     'LO(alts[0]) == 0',
                     'HI(alts[a + b - 1]) == a * LO(target) + b - 1']),
                        # what the cache key promises, stated without products of unknowns before the key axiom is unfolded
                        'hint:self._add_rule#0': dict(isolate=[1], axioms=True, steps=[
                            'LO(expansions) == 0', 'HI(expansions) == a * LO(target) + b - 1', 'LO(atom) == 1'])},
                 **COMMON)
    reg.contract('lark.load_grammar:EBNF_to_BNF._generate_repeats',
                 params={'self': 'EBNF', 'rule': 'any', 'mn': 'int', 'mx': 'int'}, returns='any',
                 requires=[INV, '0 <= mn', 'mn <= mx', 'LO(rule) == 1', 'HI(rule) == 1'],
                 modifies=['self', 'self.rules_cache', 'self.new_rules'],
                 # exactly mn .. mx occurrences, whichever construction is chosen
                 ensures=[INV, 'self.rules_cache is old(self.rules_cache)', 'self.new_rules is old(self.new_rules)', 'LO(result) == mn', 'HI(result) == mx'],
                 loops={0: dict(let={'S0': 'seq(_s0)'},
                                inv=[INV, 'self.rules_cache is old(self.rules_cache)', 'self.new_rules is old(self.new_rules)', '_s0 == S0',
                                     'LO(mn_target) == FOLD(prefix(S0, _i0))', 'HI(mn_target) == LO(mn_target)']),
                        1: dict(let={'S1': 'seq(_s1)', 'DF': 'seq(diff_factors)'},
                                inv=[INV, 'self.rules_cache is old(self.rules_cache)', 'self.new_rules is old(self.new_rules)', '_s1 == S1', 'seq(diff_factors) == DF',
                                     'LO(diff_target) == FOLD(prefix(S1, _i1))', 'HI(diff_target) == LO(diff_target)', 'LO(diff_target) >= 1',
                                     'LO(diff_opt_target) == 0', 'HI(diff_opt_target) == LO(diff_target) - 1'])},
                 **dict(COMMON, names=dict(COMMON['names'], small_factors=('contract', 'lark.utils:small_factors'),
                                           REPEAT_BREAK_THRESHOLD=('modconst', 'lark.load_grammar'), SMALL_FACTOR_THRESHOLD=('modconst', 'lark.load_grammar'))))

    # ---- the operator dispatch: ?, +, * and ~ on one rule item
    reg.specfun('INF', [], 'int', doc='"no upper bound": at least every finite count')
    reg.axiom('inf.large', [], 'INF() >= 1', [])
    reg.cls('OpToken', fields={'value': 'str'})
    # definitional: the left-recursive helper rule  t: expr | t expr  matches one or more occurrences of expr
    reg.contract('lark.load_grammar:EBNF_to_BNF._add_recurse_rule', assumed=True, kind='method',
                 params={'self': 'EBNF', 'type_': 'str', 'expr': 'any'}, returns='any', modifies=['self', 'self.rules_cache', 'self.new_rules'],
                 requires=['LO(expr) == 1', 'HI(expr) == 1'],
                 ensures=[INV, 'self.rules_cache is old(self.rules_cache)', 'self.new_rules is old(self.new_rules)', 'LO(result) == 1', 'HI(result) == INF()'])
    reg.contract('lark.load_grammar:EBNF_to_BNF.expr', serves=['C09'], kind='method',
                 params={'self': 'EBNF', 'rule': 'any', 'op': 'OpToken', 'args': 'seq[any]'}, returns='any',       # *args: an immutable tuple
                 # the loader's own grammar: op is one of ? + * ~, and ~ comes with one or two NUMBER tokens
                 requires=[INV, 'LO(rule) == 1', 'HI(rule) == 1', "op.value in ('?', '+', '*', '~')",
                           "implies(op.value == '~', (len(args) == 1 or len(args) == 2) and int(args[0]) >= 0)"],
                 modifies=['self', 'self.rules_cache', 'self.new_rules'],
                 raises={'GrammarError': ["op.value == '~' and len(args) == 2 and int(args[1]) < int(args[0])"]},
                 ensures=[INV,
                          "implies(op.value == '?', LO(result) == 0 and HI(result) == 1)",
                          "implies(op.value == '+', LO(result) == 1 and HI(result) == INF())",
                          "implies(op.value == '*', LO(result) == 0 and HI(result) == INF())",
                          "implies(op.value == '~' and len(args) == 1, LO(result) == int(args[0]) and HI(result) == int(args[0]))",
                          "implies(op.value == '~' and len(args) == 2, LO(result) == int(args[0]) and HI(result) == int(args[1]) and int(args[0]) <= int(args[1]))"],
                 ghost={'callee:ST#1': 'ST.expansions.desc', 'callee:ST#2': 'ST.expansions.desc'},
                 replay=replay_repeats,
                 names={'ST': ('dispatch', {'expansion': 'ST.expansion', 'expansions': 'ST.expansions'}), 'GrammarError': ('class', 'GrammarError')})
    reg.cls('GrammarError', exception=True)

    # ---- the same operators inside a terminal: a regexp quantifier applied to the whole (grouped) inner pattern.
    # That (?:r){n,m} / (?:r)? / (?:r)* / (?:r)+ match exactly n..m / 0..1 / any number / one or more consecutive matches of r is the
    # semantics of Python's re (trusted); what is proved is that exactly this text is produced, with the inner pattern grouped.
    reg.cls('Pat', fields={'flags': 'any'})
    reg.specfun('REGEXP', [('p', 'Pat')], 'str')
    reg.contract('Pat.to_regexp', assumed=True, kind='method', pure=True, params={'self': 'Pat'}, returns='str', ensures=['result == REGEXP(self)'])
    reg.cls('PatternRE', bases=['Pat'], fields={'value': 'str'})
    reg.contract('PatternRE.__init__', assumed=True, kind='method', params={'self': 'PatternRE', 'value': 'str', 'flags': 'any'}, modifies=['self'],
                 ensures=['self.value == value', 'self.flags == flags'])
    RX = "'(?:' + REGEXP(cast(args[0], Pat)) + ')'"
    OP = 'cast(args[1], str)'
    reg.contract('lark.load_grammar:TerminalTreeToPattern.expr', serves=['C09'], kind='method',
                 params={'self': 'any', 'args': 'list[any]'}, returns='PatternRE', types={'inner': 'Pat', 'op': 'str'},
                 requires=["implies(%s != '~', len(args) == 2)" % OP, "implies(%s == '~', len(args) == 3 or len(args) == 4)" % OP,
                           'isinstance(args[0], Pat)',
                           'all(implies(i >= 2, int(args[i]) >= 0) for i in range(0, len(args)))'],
                 raises={'GrammarError': ["%s == '~' and len(args) == 4 and int(args[3]) < int(args[2])" % OP]},
                 ensures=['fresh(result)', 'result.flags == old(cast(args[0], Pat).flags)',
                          "implies(%s != '~', result.value == %s + %s)" % (OP, RX, OP),
                          "implies(%s == '~' and len(args) == 3, result.value == %s + '{' + str(int(args[2])) + '}')" % (OP, RX),
                          "implies(%s == '~' and len(args) == 4, result.value == %s + '{' + str(int(args[2])) + ',' + str(int(args[3])) + '}' and int(args[2]) <= int(args[3]))" % (OP, RX)],
                 replay=replay_repeats, names={'GrammarError': ('class', 'GrammarError'), 'PatternRE': ('class', 'PatternRE')})
