"""C09 - repetition operators match exactly the stated counts."""
PROPERTY = 'C09'
from pyvc.util import mget

NATIVE_SMALL_FACTORS = r"""
import json, sys
from lark.utils import small_factors
def bad(n, mf):
    try:
        r = small_factors(n, mf)
    except BaseException as e:
        return 'raised %r' % (e,)
    x = 1
    for a, b in r: x = x * a + b
    if x != n: return 'fold gives %d, not n' % x
    if len(r) < 1: return 'empty result'
    if any(a + b > mf or b < 0 or a < 0 for a, b in r): return 'pair exceeds max_factor: %r' % (r,)
    if any(a < 2 for a, b in r[1:]): return 'factor < 2: %r' % (r,)
    return None
cands = %(cands)s + [(n, mf) for mf in range(3, 9) for n in range(0, 120)]
for n, mf in cands:
    if n is None or mf is None or n < 0 or mf <= 2 or n > 10**6: continue
    why = bad(n, mf)
    if why:
        print(json.dumps({'fails': True, 'input': {'n': n, 'max_factor': mf}, 'observed': why, 'required': 'FOLD(result) == n, pairs within max_factor'}))
        sys.exit(0)
print(json.dumps({'fails': False, 'tried': len(cands)}))
"""


def replay_small_factors(model):
    return NATIVE_SMALL_FACTORS.replace('%(cands)s', repr([(mget(model, 'n'), mget(model, 'max_factor'))]))


def register(reg):
    reg.specfun('FOLD', [('xs', 'seq[tuple[int,int]]')], 'int',
                body='1 if len(xs) <= 0 else FOLD(xs[:len(xs)-1]) * xs[len(xs)-1][0] + xs[len(xs)-1][1]',
                doc='n = 1; for a, b in xs: n = n*a + b   (docstring of small_factors)')

    reg.contract('lark.utils:small_factors', serves=['C09'],
                 params={'n': 'int', 'max_factor': 'int'}, returns='list[tuple[int,int]]',
                 requires=['n >= 0', 'max_factor > 2'],
                 ensures=['FOLD(seq(result)) == n', 'len(result) >= 1', 'fresh(result)',
                          'all(result[i][0] + result[i][1] <= max_factor and result[i][1] >= 0 and result[i][0] >= 0 for i in range(0, len(result)))',
                          'all(result[i][0] >= 2 for i in range(1, len(result)))'],
                 decreases='n',
                 loops={0: dict(inv=['2 <= a', 'a <= max_factor', 'n >= 1'])},
                 replay=replay_small_factors,
                 names={'small_factors': ('contract', 'lark.utils:small_factors')})
