"""Class declarations and external (assumed) contracts shared by several properties."""


def register(reg):
    pass
