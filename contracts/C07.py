"""C07 - the lexer tiles the input by the documented precedence; contextual refines basic.

Kernels: terminal ordering (the real sort key against the documented order), Scanner.match / search (first chunk in order, bounded by the
window end), UnlessCallback / CallChain (keyword retyping keeps value and positions), plus BasicLexer.next_token (UNIT C06: consecutive,
non-empty, covering tokens; ignored ones dropped).
"""
import ast
from pyvc.util import native_file

PROPERTY = 'C07'
UNITS = ['C07', 'C06', 'C10']        # C10's unit holds PatternRE._get_width: the width that orders terminals is that of to_regexp() (value AND flags)
TRUSTED = [
    "list.sort(key): result is a permutation ordered by the key (stable sort of CPython); str '<' is code-point order",
    "re contract: a compiled alternation object matches or not as a function of (object, text, pos, endpos): MATCHES / GROUP0 / LASTGROUP / MSTART; first alternative wins inside one alternation (re semantics)",
]
ASSUMPTIONS = [
    "'contextual succeeds with the same tree whenever basic succeeds' is a whole-parse statement: not decided",
    "Scanner._build_mres chunking (dead with CPython's re, F8) and _create_unless are covered by the bounded cross-check only",
]
BOUNDED = [dict(name='crosscheck.lexer', function='BasicLexer ordering, keyword/identifier resolution, ContextualLexer vs BasicLexer through Lark.lex / parse',
                code=native_file('bounded/c07_lexer.py'),
                bound={'quick': 'reference lexer (documented order + unless rule) vs Lark.lex on 6 grammars x all texts of length <= 4 over the grammar alphabet; str and bytes; g_regex_flags',
                       'thorough': 'texts of length <= 6'},
                note='CPython cross-check and replay search; not counted as obligations')]


def _replay(model):
    return native_file('bounded/c07_lexer.py')


def sort_region(fn):
    for s in ast.walk(fn):
        if isinstance(s, ast.Expr) and isinstance(s.value, ast.Call) and ast.unparse(s.value.func) == 'terminals.sort':
            return [s]
    return None


def BEFORE(x, y):
    """the documented order: higher priority, then longer maximal width, then longer pattern, then name"""
    return ('(%(x)s.priority > %(y)s.priority or (%(x)s.priority == %(y)s.priority and (MAXW(%(x)s.pattern) > MAXW(%(y)s.pattern) or '
            '(MAXW(%(x)s.pattern) == MAXW(%(y)s.pattern) and (len(%(x)s.pattern.value) > len(%(y)s.pattern.value) or '
            '(len(%(x)s.pattern.value) == len(%(y)s.pattern.value) and %(x)s.name < %(y)s.name))))))' % dict(x=x, y=y))


def register(reg):
    _register_core(reg)
    register_unless(reg)


def _register_core(reg):
    S = ['C07']
    reg.cls('Pattern', target='lark.lexer:Pattern', consts={'value': 'str', 'flags': 'set[str]'})
    reg.cls('TerminalDef', target='lark.lexer:TerminalDef', consts={'name': 'str', 'pattern': 'Pattern', 'priority': 'int'})
    reg.specfun('MAXW', [('p', 'Pattern')], 'int')
    reg.contract('lark.lexer:Pattern.max_width', assumed=True, kind='property', pure=True, params={'self': 'Pattern'}, returns='int',
                 ensures=['result == MAXW(self)'])
    reg.specfun('REGEXP', [('p', 'Pattern')], 'str')
    reg.contract('lark.lexer:Pattern.to_regexp', assumed=True, kind='method', pure=True, params={'self': 'Pattern'}, returns='str',
                 ensures=['result == REGEXP(self)'])
    reg.contract('lark.lexer:BasicLexer.__init__#sort', serves=S, region=sort_region,
                 params={'terminals': 'list[TerminalDef]'}, modifies=['terminals'],
                 ghost={'ensures_fall': [
                     # no terminal comes after one it should precede
                     'all(not %s for i in range(0, len(terminals)) for j in range(i + 1, len(terminals)))' % BEFORE('terminals[j]', 'terminals[i]'),
                     'len(terminals) == old(len(terminals))',
                     'all(any(terminals[i] is old(seq(terminals))[j] for j in range(0, len(terminals))) for i in range(0, len(terminals)))']},
                 replay=_replay)

    # ---- scanner
    reg.cls('TextSlice', consts={'text': 'text', 'start': 'int', 'end': 'int'})
    reg.cls('Mre')
    reg.cls('Match', consts={'mre': 'Mre', 'text': 'text', 'pos': 'int', 'endpos': 'opt[int]', 'lastgroup': 'str'})
    reg.cls('Scanner', target='lark.lexer:Scanner', fields={'_mres': 'list[Mre]'})
    reg.specfun('MATCHES', [('m', 'Mre'), ('t', 'text'), ('pos', 'int'), ('end', 'opt[int]')], 'bool')
    reg.specfun('LASTGROUP', [('m', 'Mre'), ('t', 'text'), ('pos', 'int'), ('end', 'opt[int]')], 'str')
    reg.specfun('GROUP0', [('m', 'Mre'), ('t', 'text'), ('pos', 'int'), ('end', 'opt[int]')], 'text')
    reg.specfun('SEARCHES', [('m', 'Mre'), ('t', 'text'), ('pos', 'int'), ('end', 'opt[int]')], 'bool')
    reg.specfun('MSTART', [('m', 'Mre'), ('t', 'text'), ('pos', 'int'), ('end', 'opt[int]')], 'int')
    reg.contract('Mre.match', assumed=True, kind='method', params={'self': 'Mre', 'text': 'text', 'pos': 'int', 'endpos': 'opt[int]'}, returns='opt[Match]',
                 ghost={'defaults': {'endpos': None}},
                 ensures=['(result is not None) == MATCHES(self, text, pos, endpos)',
                          'implies(result is not None, result.mre is self and result.text == text and result.pos == pos and result.endpos == endpos '
                          'and result.lastgroup == LASTGROUP(self, text, pos, endpos))'])
    reg.contract('Mre.search', assumed=True, kind='method', params={'self': 'Mre', 'text': 'text', 'pos': 'int', 'endpos': 'opt[int]'}, returns='opt[Match]',
                 ghost={'defaults': {'endpos': None}},
                 ensures=['(result is not None) == SEARCHES(self, text, pos, endpos)',
                          'implies(result is not None, result.mre is self and result.text == text and result.pos == pos and result.endpos == endpos '
                          'and MSTART(self, text, pos, endpos) >= pos)'])
    reg.contract('Match.group', assumed=True, kind='method', pure=True, params={'self': 'Match', 'n': 'int'}, returns='text',
                 requires=['n == 0'], ensures=['result == GROUP0(self.mre, self.text, self.pos, self.endpos)'])
    reg.specfun('MEND', [('m', 'Mre'), ('t', 'text'), ('pos', 'int'), ('end', 'opt[int]')], 'int')
    reg.contract('Match.end', assumed=True, kind='method', pure=True, params={'self': 'Match'}, returns='int',
                 ensures=['result == MEND(self.mre, self.text, self.pos, self.endpos)'])
    reg.contract('Match.start', assumed=True, kind='method', pure=True, params={'self': 'Match'}, returns='int',
                 ensures=['result == MSTART(self.mre, self.text, self.pos, self.endpos)'])
    A = 'text.text, pos, text.end'
    reg.contract('lark.lexer:Scanner.match', serves=S, kind='method',
                 params={'self': 'Scanner', 'text': 'TextSlice', 'pos': 'int'}, returns='opt[tuple[text,str]]',
                 ensures=[
                     # no match only if no chunk matches - looking no further than the end of the window
                     'implies(result is None, all(not MATCHES(self._mres[k], %s) for k in range(0, len(self._mres))))' % A,
                     # otherwise the result is that of the FIRST chunk, in list order, that matches at pos
                     'implies(result is not None, any(MATCHES(self._mres[k], %s) and all(not MATCHES(self._mres[j], %s) for j in range(0, k)) '
                     'and val(result)[0] == GROUP0(self._mres[k], %s) and val(result)[1] == LASTGROUP(self._mres[k], %s) for k in range(0, len(self._mres))))' % (A, A, A, A)],
                 loops={0: dict(inv=['all(not MATCHES(_s0[j], %s) for j in range(0, _i0))' % A, 'self._mres is old(self._mres)'])},
                 replay=_replay)
    reg.contract('lark.lexer:Scanner.search', serves=['C07', 'C14'], kind='method',
                 params={'self': 'Scanner', 'text': 'TextSlice', 'pos': 'int'}, returns='opt[int]',
                 types={'best': 'opt[Match]'},
                 ensures=[
                     'implies(result is None, all(not SEARCHES(self._mres[k], %s) for k in range(0, len(self._mres))))' % A,
                     # the earliest start over all chunks
                     'implies(result is not None, any(SEARCHES(self._mres[k], %s) and val(result) == MSTART(self._mres[k], %s) for k in range(0, len(self._mres))) '
                     'and all(implies(SEARCHES(self._mres[k], %s), val(result) <= MSTART(self._mres[k], %s)) for k in range(0, len(self._mres))))' % (A, A, A, A)],
                 loops={0: dict(inv=['self._mres is old(self._mres)',
                                     'implies(best is None, all(not SEARCHES(_s0[j], %s) for j in range(0, _i0)))' % A,
                                     'implies(best is not None, any(SEARCHES(_s0[j], %s) and best.mre is _s0[j] and best.text == text.text and best.pos == pos and best.endpos == text.end for j in range(0, _i0)))' % A,
                                     'implies(best is not None, all(implies(SEARCHES(_s0[j], %s), MSTART(best.mre, %s) <= MSTART(_s0[j], %s)) for j in range(0, _i0)))' % (A, A, A)])},
                 replay=_replay)

    # ---- keyword / identifier resolution at lexing time
    reg.cls('Token', target='lark.lexer:Token',
            fields={'type': 'str', 'value': 'text', 'start_pos': 'int', 'line': 'int', 'column': 'int', 'end_line': 'int', 'end_column': 'int', 'end_pos': 'int'})
    reg.cls('UnlessCallback', target='lark.lexer:UnlessCallback', fields={'scanner': 'Scanner'})
    reg.specfun('FULLMATCH', [('s', 'Scanner'), ('v', 'text')], 'opt[str]')
    reg.contract('lark.lexer:Scanner.fullmatch', assumed=True, kind='method', pure=True, params={'self': 'Scanner', 'text': 'text'}, returns='opt[str]',
                 ensures=['result == FULLMATCH(self, text)'])
    reg.contract('lark.lexer:UnlessCallback.__call__', serves=['C07', 'C06', 'C15'], kind='method',
                 params={'self': 'UnlessCallback', 't': 'Token'}, returns='Token', modifies=['t'],
                 ensures=['result is t',
                          # retyped iff the WHOLE value is one of the attached strings; value and positions untouched
                          'implies(FULLMATCH(self.scanner, t.value) is not None, t.type == val(FULLMATCH(self.scanner, t.value)))',
                          'implies(FULLMATCH(self.scanner, t.value) is None, t.type == old(t.type))',
                          't.value == old(t.value) and t.start_pos == old(t.start_pos) and t.end_pos == old(t.end_pos) and t.line == old(t.line) '
                          'and t.column == old(t.column) and t.end_line == old(t.end_line) and t.end_column == old(t.end_column)'],
                 replay=_replay)


# ---- which string terminals are folded into a regexp terminal (keywords against identifiers): the double loop of _create_unless
def _unless_region(fn):
    for n in ast.walk(fn):
        if isinstance(n, ast.For) and 'PatternRE' in ast.unparse(n.iter) and isinstance(n.target, ast.Name) and n.target.id == 'retok':
            return [n]
    return None


def register_unless(reg):
    reg.classes['Scanner'].fields.update({'terminals': __import__('pyvc.ty', fromlist=['parse_type']).parse_type('list[TerminalDef]'),
                                          'g_regex_flags': __import__('pyvc.ty', fromlist=['parse_type']).parse_type('any')})
    reg.contract('lark.lexer:Scanner.__init__', assumed=True, kind='method', modifies=['self'],
                 params={'self': 'Scanner', 'terminals': 'list[TerminalDef]', 'g_regex_flags': 'any', 're_': 'any', 'use_bytes': 'any'},
                 ensures=['self.terminals is terminals', 'self.g_regex_flags == g_regex_flags'])
    reg.contract('lark.lexer:UnlessCallback.__init__', assumed=True, kind='method', modifies=['self'], params={'self': 'UnlessCallback', 'scanner': 'Scanner'},
                 ensures=['self.scanner is scanner'])
    # re_.match(regexp, s, flags).group(0) or None: a function of the regexp text, the candidate string and the GLOBAL flags in force
    reg.specfun('GM', [('regexp', 'str'), ('s', 'str'), ('flags', 'any')], 'opt[str]')
    reg.contract('lark.lexer:_get_match', assumed=True, pure=True, params={'re_': 'any', 'regexp': 'str', 's': 'str', 'flags': 'any'}, returns='opt[str]',
                 ensures=['result == GM(regexp, s, flags)'])
    reg.specfun('FSUB', [('a', 'Pattern'), ('b', 'Pattern')], 'bool', doc='a.flags <= b.flags')
    reg.contract('flags_subset', assumed=True, pure=True, params={'strtok': 'TerminalDef', 'retok': 'TerminalDef'}, ghost_params=['strtok', 'retok'], returns='bool',
                 ensures=['result == FSUB(strtok.pattern, retok.pattern)'])
    # the keyword condition of the statement: same priority, and the regexp terminal matches the string terminal's text exactly
    KW = '(%(s)s.priority == %(r)s.priority and GM(REGEXP(%(r)s.pattern), %(s)s.pattern.value, g_regex_flags) == %(s)s.pattern.value)'
    reg.contract('lark.lexer:_create_unless#fold', serves=['C07'], region=_unless_region,
                 params={'RETOKS': 'list[TerminalDef]', 'STRTOKS': 'list[TerminalDef]', 'embedded_strs': 'set[TerminalDef]', 'callback': 'dict[str,UnlessCallback]',
                         'g_regex_flags': 'any', 're_': 'any', 'use_bytes': 'any'},
                 requires=['all(not (k in callback) for k in STR)', 'all(not (x in embedded_strs) for x in TERMINALDEFS)', 'RETOKS is not STRTOKS',
                           'all(implies(i != j, RETOKS[i].name != RETOKS[j].name) for i in range(0, len(RETOKS)) for j in range(0, len(RETOKS)))'],
                 modifies=['embedded_strs', 'callback'],
                 ghost={'append_named': True, 'ensures_fall': [
                     # a regexp terminal gets a retyping callback exactly when some string terminal is a keyword of it ...
                     'all(implies(any(%s for j in range(0, len(STRTOKS))), RETOKS[i].name in callback) for i in range(0, len(RETOKS)))' % (KW % dict(s='STRTOKS[j]', r='RETOKS[i]')),
                     'all(implies(RETOKS[i].name in callback, any(%s for j in range(0, len(STRTOKS)))) for i in range(0, len(RETOKS)))' % (KW % dict(s='STRTOKS[j]', r='RETOKS[i]')),
                     # ... the callback's scanner holds every such keyword, only such keywords, and runs with the same global flags
                     'all(implies(RETOKS[i].name in callback, callback[RETOKS[i].name].scanner.g_regex_flags == g_regex_flags) for i in range(0, len(RETOKS)))',
                     # (not decided here: that the scanner's list holds every keyword and only keywords, and which keywords are dropped from the
                     #  lexer's own terminal list - bounded cross-check c07_lexer)
                 ]},
                 loops={0: dict(let={'R0': 'seq(_s0)', 'S0': 'seq(STRTOKS)'},
                                inv=['_s0 == R0', 'seq(STRTOKS) == S0',
                                     'all(implies(any(%s for j in range(0, len(S0))), R0[i].name in callback) for i in range(0, _i0))' % (KW % dict(s='S0[j]', r='R0[i]')),
                                     'all(implies(k in callback, any(R0[i].name == k and any(%s for j in range(0, len(S0))) for i in range(0, _i0))) for k in STR)' % (KW % dict(s='S0[j]', r='R0[i]')),
                                     'all(implies(R0[i].name in callback, callback[R0[i].name].scanner.g_regex_flags == g_regex_flags) for i in range(0, _i0))',
                                     ]),
                        1: dict(inv=['fresh(unless)', '_s1 == S0', 'seq(STRTOKS) == S0',
                                     'all(implies(%s, any(unless[m] is S0[j] for m in range(0, len(unless)))) for j in range(0, _i1))' % (KW % dict(s='S0[j]', r='retok')),
                                     'all(any(unless[m] is S0[j] and %s for j in range(0, _i1)) for m in range(0, len(unless)))' % (KW % dict(s='S0[j]', r='retok'))])},
                 names={'expr:tokens_by_type.get(PatternRE, [])': ('sv_env', 'RETOKS'), 'expr:tokens_by_type.get(PatternStr, [])': ('sv_env', 'STRTOKS'),
                        'expr:strtok.pattern.flags <= retok.pattern.flags': ('contract', 'flags_subset'),
                        '_get_match': ('contract', 'lark.lexer:_get_match')},
                 replay=_replay)
