"""C15 - str, bytes and TextSlice agree.

Kernel of its own: the window type lark.utils:TextSlice (index normalisation, length, count/rindex delegation).
Re-used (UNITS): every C06 obligation is generic in the buffer kind (ISBYTES(text) is a free boolean, the newline spelling is tied to
it by NLCHAR) and in the window [start, end): LineCounter.feed/advance_to/from_text_slice and BasicLexer.next_token are therefore
verified for str and bytes and for arbitrary windows at once; coordinates are stated over the whole buffer.
"""
from pyvc.util import native_file
from . import textmodel

PROPERTY = 'C15'
UNITS = ['C15', 'C06', 'C07']       # C07: only UnlessCallback.__call__ (keyword retyping must not depend on the buffer kind)
TRUSTED = list(textmodel.TRUSTED) + ['dataclass semantics: TextSlice(text, start, end) stores the three fields and then runs __post_init__ (verified)']
ASSUMPTIONS = ['equality of whole trees across representations needs parser determinism (C02): not decided here',
               're matching bounded by endpos: assumed scanner contract (C06/C07)']

BOUNDED = [dict(name='crosscheck.textslice', function='TextSlice.__post_init__/__len__/count/rindex, windows through Lark.lex (shared with C06)',
                code=native_file('bounded/c15_textslice.py'),
                bound={'quick': 'all texts over {a, newline} of length <= 5 x all (start, end) in [-len-1, len+1] incl. None', 'thorough': 'length <= 7'},
                note='CPython cross-check of the executable contracts; not counted as obligations'),
           dict(name='standin.representations-agree', function='the pipeline around the kernels: Lark.parse / lex / scan and on_error recovery for str, bytes and TextSlice windows on lalr/basic, lalr/contextual, earley/basic, earley/dynamic',
                code=native_file('bounded/c15_agree.py'),
                bound={'quick': '3 grammars (keywords vs identifiers, strings/comments, ignored newlines) x 4 engines x all texts of length <= 4 over 5-6 characters, each as str, bytes and 4 TextSlice windows (str and bytes buffers); 4 recovery texts; 4 lex/scan texts',
                       'thorough': 'texts of length <= 5'},
                note='bounded: stands in for the unverified pipeline stages; never counted as proved')]


def _replay(model):
    return native_file('bounded/c15_textslice.py')


def _dynamic_guard_region(fn):
    """ParsingFrontend.parse: the statement that decides what a dynamic Earley lexer is given"""
    import ast
    for st_ in fn.body:
        if isinstance(st_, ast.If) and 'dynamic' in ast.unparse(st_.test):
            return [st_]
    return None


def register(reg):
    register_frontend(reg)
    textmodel.register_text(reg)
    reg.cls('TextSlice', target='lark.utils:TextSlice', fields={'text': 'text', 'start': 'int', 'end': 'opt[int]'})
    S = ['C15']
    L = 'len(self.text)'
    reg.contract('lark.utils:TextSlice.__post_init__', serves=S, kind='method',
                 params={'self': 'TextSlice'}, modifies=['self'],
                 ensures=['self.text == old(self.text)',
                          # negative indices count from the end of the buffer, None is the end
                          'self.start == (old(self.start) if old(self.start) >= 0 else old(self.start) + %s)' % L, 'self.start >= 0',
                          'self.end is not None',
                          'implies(old(self.end) is None, val(self.end) == %s)' % L,
                          'implies(old(self.end) is not None and val(old(self.end)) >= 0, val(self.end) == val(old(self.end)))',
                          'implies(old(self.end) is not None and val(old(self.end)) < 0, val(self.end) == val(old(self.end)) + %s and val(self.end) <= %s)' % (L, L)],
                 raises={'AssertionError': ['old(self.start) < -%s or (old(self.end) is not None and False)' % L]},
                 replay=_replay)
    reg.contract('TextSlice.__init__', assumed=True, kind='method',
                 params={'self': 'TextSlice', 'text': 'text', 'start': 'int', 'end': 'opt[int]'}, modifies=['self'],
                 requires=['start >= -len(text)'],
                 ensures=['self.text == text', 'self.start == (start if start >= 0 else start + len(text))', 'self.end is not None',
                          'implies(end is None, val(self.end) == len(text))',
                          'implies(end is not None and val(end) >= 0, val(self.end) == val(end))',
                          'implies(end is not None and val(end) < 0, val(self.end) == val(end) + len(text))'])
    reg.contract('lark.utils:TextSlice.cast_from', serves=S, kind='classmethod',
                 params={'text': 'text'}, returns='TextSlice',
                 ensures=['result.text == text', 'result.start == 0', 'val(result.end) == len(text)'],     # the whole buffer
                 names={'cls': ('class', 'TextSlice')}, replay=_replay)
    reg.contract('lark.utils:TextSlice.is_complete_text', serves=S, kind='method', params={'self': 'TextSlice'}, returns='bool',
                 requires=['self.end is not None'],
                 ensures=['result == (self.start == 0 and val(self.end) == %s)' % L], replay=_replay)
    reg.contract('lark.utils:TextSlice.__len__', serves=S, kind='method', params={'self': 'TextSlice'}, returns='int',
                 requires=['self.end is not None'], ensures=['result == val(self.end) - self.start'], replay=_replay)
    WIN = ['self.end is not None', '0 <= self.start', 'self.start <= val(self.end)', 'val(self.end) <= %s' % L]
    reg.contract('lark.utils:TextSlice.count', serves=S, kind='method', params={'self': 'TextSlice', 'substr': 'any'}, returns='int',
                 requires=WIN + ['NLCHAR(substr, self.text)'],
                 ensures=['result == NLC(self.text, self.start, val(self.end))'], replay=_replay)      # counts inside the window only
    reg.contract('lark.utils:TextSlice.rindex', serves=S, kind='method', params={'self': 'TextSlice', 'substr': 'any'}, returns='int',
                 requires=WIN + ['NLCHAR(substr, self.text)', 'NLC(self.text, self.start, val(self.end)) > 0'],
                 ensures=['result == LNL(self.text, self.start, val(self.end))'], replay=_replay)       # an offset in the underlying buffer


def register_frontend(reg):
    # the dynamic Earley lexers scan the text itself: they are never handed a TextSlice - a window is refused (TypeError), a slice that covers
    # the whole buffer is unwrapped (F52)
    reg.cls('LexerConfT', fields={'lexer_type': 'str'})
    reg.cls('ParsingFrontend', target='lark.parser_frontends:ParsingFrontend', consts={'lexer_conf': 'LexerConfT'})
    reg.cls('TypeError', exception=True, bases=['Exception'])
    DYN = "(self.lexer_conf.lexer_type == 'dynamic' or self.lexer_conf.lexer_type == 'dynamic_complete')"
    reg.contract('lark.parser_frontends:ParsingFrontend.parse#dynamic-guard', serves=['C15'], region=_dynamic_guard_region,
                 params={'self': 'ParsingFrontend', 'text': 'any'},
                 requires=['implies(isinstance(text, TextSlice), cast(text, TextSlice).end is not None)'],
                 ghost={'ensures_fall': ['implies(%s, not isinstance(text, TextSlice))' % DYN,
                                         'implies(%s and isinstance(old(text), TextSlice), text == cast(cast(old(text), TextSlice).text, any))' % DYN,
                                         'implies(not (%s and isinstance(old(text), TextSlice)), text == old(text))' % DYN,
                                         # ... and only a slice that covers the whole buffer gets that far
                                         'implies(%s and isinstance(old(text), TextSlice), cast(old(text), TextSlice).start == 0 and '
                                         'val(cast(old(text), TextSlice).end) == len(cast(old(text), TextSlice).text))' % DYN]},
                 raises={'TypeError': [DYN, 'isinstance(old(text), TextSlice)',
                                       'not (cast(old(text), TextSlice).start == 0 and val(cast(old(text), TextSlice).end) == len(cast(old(text), TextSlice).text))']},
                 names={'TextSlice': ('class', 'TextSlice'), 'TypeError': ('class', 'TypeError')}, replay=_replay)

