"""C17 - imports, overrides, extensions mean what textual inlining means: name mangling and the definition map."""
from pyvc.util import native_file

PROPERTY = 'C17'
TRUSTED = [
    "z3 string theory for the name algebra (concatenation, prefix tests); '%s' formatting with str arguments is concatenation",
    "GrammarBuilder._grammar_error always raises GrammarError (it ends in an unconditional raise); Definition(...) stores its four arguments",
]
ASSUMPTIONS = [
    "language/tree equality with the textually inlined grammar needs compile + parser semantics: not decided",
    "names are non-empty (the grammar parser's RULE/TERMINAL regexps)",
]
BOUNDED = [dict(name='crosscheck.imports', function='_get_mangle.mangle, GrammarBuilder._define/_extend, %import/%override/%extend through Lark',
                code=native_file('bounded/c17_imports.py'),
                bound={'quick': 'mangle on all names over {a, _, A} up to length 3 x 3 prefixes x alias on/off; 8 import/override/extend scenarios compared with the hand-inlined grammar',
                       'thorough': 'names up to length 4'},
                note='CPython cross-check of the executable contracts and replay search; not counted as obligations')]


def _replay(model):
    return native_file('bounded/c17_imports.py')


PLAIN = "(prefix + '__' + s)"
UNDER = "('_' + prefix + '__' + s[1:])"


def register(reg):
    S = ['C17']
    register_templates(reg)
    register_mangle_tree(reg)
    reg.contract('lark.load_grammar:_get_mangle.<locals>.mangle', serves=S,
                 params={'s': 'str', 'prefix': 'str', 'aliases': 'dict[str,str]', 'base_mangle': 'none'}, returns='str',
                 requires=['len(s) >= 1', 'len(prefix) >= 1'],
                 ensures=[
                     'implies(s in aliases, result == aliases[s])',                         # explicit renaming wins
                     # the documented module__name form; a leading underscore (inlined rule / filtered terminal) stays in front
                     "implies(s not in aliases and s[0] != '_', result == %s)" % PLAIN,
                     "implies(s not in aliases and s[0] == '_', result == %s)" % UNDER,
                     "implies(s not in aliases, result.startswith('_') == (s[0] == '_' or prefix[0] == '_'))",
                     # the result must be a name the grammar builder accepts: not in the reserved double-underscore space
                     ("implies(s not in aliases, not result.startswith('__'))", 'F9', "not (prefix[0] == '_' and (s[0] == '_' or len(prefix) == 1 or prefix[1] == '_'))"),
                 ],
                 replay=_replay)
    # nested imports (a module that is itself imported): the importing module's mangle is applied ON TOP of this one - to explicitly
    # imported names and to dependencies alike - so a transitive dependency carries both prefixes and cannot clash with a direct import
    reg.specfun('OUTER', [('f', 'any'), ('s', 'str')], 'str', doc='the enclosing mangle function applied to a name')
    reg.contract('lark.load_grammar:_get_mangle.<locals>.mangle#nested', serves=S,
                 params={'s': 'str', 'prefix': 'str', 'aliases': 'dict[str,str]', 'base_mangle': 'any'}, returns='str',
                 requires=['len(s) >= 1', 'len(prefix) >= 1', 'base_mangle is not None'],
                 ghost={'callv:base_mangle#0': dict(returns='str', assumes=['result == OUTER(fn, arg0)'])},
                 ensures=['implies(s in aliases, result == OUTER(base_mangle, aliases[s]))',
                          "implies(s not in aliases and s[0] != '_', result == OUTER(base_mangle, %s))" % PLAIN,
                          "implies(s not in aliases and s[0] == '_', result == OUTER(base_mangle, %s))" % UNDER],
                 replay=_replay)
    # injectivity on non-aliased names, for a fixed prefix (imported definitions never capture each other)
    reg.specfun('MANGLE', [('prefix', 'str'), ('s', 'str')], 'str', body="(%s) if s[0] != '_' else (%s)" % (PLAIN, UNDER))
    reg.lemma('mangle_injective', [('prefix', 'str'), ('s', 'str'), ('t', 'str')],
              requires=['len(s) >= 1', 'len(t) >= 1', 'len(prefix) >= 1', "prefix[0] != '_'"],
              ensures=['implies(MANGLE(prefix, s) == MANGLE(prefix, t), s == t)'], serves=S)
    reg.lemma('mangle_keeps_class', [('prefix', 'str'), ('s', 'str')],
              requires=['len(s) >= 1', 'len(prefix) >= 1', "prefix[0] != '_'"],
              ensures=["MANGLE(prefix, s).startswith('_') == (s[0] == '_')", "MANGLE(prefix, s).endswith(s[1:])"], serves=S)

    # ---- the definition map
    reg.cls('Tree', fields={'data': 'str', 'children': 'list[Tree]'})
    reg.cls('Definition', target='lark.load_grammar:Definition', fields={'is_term': 'bool', 'tree': 'opt[Tree]', 'params': 'any', 'options': 'any'})
    reg.cls('GrammarBuilder', target='lark.load_grammar:GrammarBuilder', fields={'_definitions': 'dict[str,Definition]'})
    reg.cls('GrammarError', exception=True, bases=['Exception'])
    reg.contract('lark.load_grammar:GrammarBuilder._grammar_error', assumed=True, kind='method',
                 params={'self': 'GrammarBuilder', 'is_term': 'bool', 'msg': 'str', 'name': 'str'}, raises={'GrammarError': []}, ensures=['False'])
    reg.contract('lark.load_grammar:GrammarBuilder._check_options', assumed=True, kind='method',
                 params={'self': 'GrammarBuilder', 'is_term': 'bool', 'options': 'any'}, returns='any', raises={'GrammarError': []})
    reg.contract('Definition.__init__', assumed=True, kind='method',
                 params={'self': 'Definition', 'is_term': 'bool', 'tree': 'opt[Tree]', 'params': 'any', 'options': 'any'}, modifies=['self'],
                 ensures=['self.is_term == is_term', 'self.tree is tree'])
    D = 'self._definitions'
    reg.contract('lark.load_grammar:GrammarBuilder._define', serves=S, kind='method',
                 params={'self': 'GrammarBuilder', 'name': 'str', 'is_term': 'bool', 'exp': 'opt[Tree]', 'params': 'any', 'options': 'any', 'override': 'bool'},
                 ghost={'defaults': {'override': False, 'options': None, 'params': None}},
                 modifies=['self._definitions'],
                 ensures=['name in %s' % D, 'fresh(%s[name])' % D, '%s[name].tree is exp' % D, '%s[name].is_term == is_term' % D,
                          # exactly one key is added (or, with override, replaced); every other definition is untouched
                          'all(implies(k != name, (k in %s) == (k in old(dom(%s))) and implies(k in %s, %s[k] is old(content(%s))[k])) for k in STR)' % (D, D, D, D, D),
                          'implies(override, name in old(dom(%s)))' % D, 'implies(not override, name not in old(dom(%s)))' % D,
                          "not name.startswith('__')"],
                 raises={'GrammarError': [
                     # (that a clash IS an error - never a silent capture - is carried by the three postconditions of the normal return above;
                     #  the converse, 'an error only on a clash', is not claimed: _check_options may reject the options for other reasons)
                     # when the error is raised the definition map is what it was
                     'all((k in %s) == (k in old(dom(%s))) and implies(k in %s, %s[k] is old(content(%s))[k]) for k in STR)' % (D, D, D, D, D)]},
                 names={'Definition': ('class', 'Definition')}, replay=_replay)
    reg.contract('lark.load_grammar:GrammarBuilder._extend', serves=S, kind='method',
                 params={'self': 'GrammarBuilder', 'name': 'str', 'is_term': 'bool', 'exp': 'Tree', 'params': 'any', 'options': 'any'},
                 ghost={'defaults': {'options': None, 'params': None}},
                 requires=['all(implies(k in %s and %s[k].tree is not None, %s[k].tree.children is not %s) for k in STR)' % (D, D, D, D)],
                 modifies=['self._definitions[name].tree.children'],
                 ensures=['name in %s' % D,
                          # the key set and every Definition object stay; the existing expansions tree is extended IN PLACE (other holders of it,
                          # e.g. terminals that already inlined it by reference, see the new alternative) with the new alternative FIRST
                          'all((k in %s) == (k in old(dom(%s))) and implies(k in %s, %s[k] is old(content(%s))[k]) for k in STR)' % (D, D, D, D, D),
                          '%s[name].tree is old(%s[name].tree)' % (D, D), '%s[name].tree.children is old(%s[name].tree.children)' % (D, D),
                          'seq(%s[name].tree.children) == [exp] + old(seq(%s[name].tree.children))' % (D, D)],
                 raises={'GrammarError': ['all((k in %s) == (k in old(dom(%s))) for k in STR)' % (D, D)], 'AssertionError': []},
                 replay=_replay)


# ---- template instantiation: an instance is the template's definition with its own copy of ALL the template's options
def _instance_region(fn):
    import ast as _ast
    for s in _ast.walk(fn):
        if isinstance(s, _ast.Expr) and isinstance(s.value, _ast.Call) and _ast.unparse(s.value.func) == 'self.rule_defs.append':
            return [s]
    return None


def register_templates(reg):
    OPT = ('keep_all_tokens', 'expand1', 'priority', 'template_source', 'empty_indices')
    reg.cls('RuleOptions', target='lark.grammar:RuleOptions', fields={f: 'any' for f in OPT})
    reg.contract('lark.grammar:RuleOptions.__init__', assumed=True, kind='method', modifies=['self'],
                 params=dict({'self': 'RuleOptions'}, **{f: 'any' for f in OPT}),
                 ghost={'defaults': {'keep_all_tokens': False, 'expand1': False, 'priority': None, 'template_source': None, 'empty_indices': ()}},
                 ensures=['self.%s == %s' % (f, f) for f in OPT])
    reg.contract('deepcopy/RuleOptions', assumed=True, params={'x': 'RuleOptions'}, returns='RuleOptions',
                 ensures=['fresh(result)'] + ['result.%s == x.%s' % (f, f) for f in OPT])
    reg.cls('ApplyTemplates', target='lark.load_grammar:ApplyTemplates', fields={'rule_defs': 'list[tuple[str,list[any],any,RuleOptions]]'})
    LAST = 'self.rule_defs[len(self.rule_defs) - 1]'
    reg.contract('lark.load_grammar:ApplyTemplates.template_usage#instance', serves=['C17'], region=_instance_region,
                 params={'self': 'ApplyTemplates', 'result_name': 'str', 'result_tree': 'any', 'options': 'RuleOptions'},
                 modifies=['self.rule_defs'],
                 ghost={'ensures_fall': ['len(self.rule_defs) == old(len(self.rule_defs)) + 1',
                                         'all(self.rule_defs[i] == old(self.rule_defs[i]) for i in range(0, len(self.rule_defs) - 1))',
                                         # the instance is filed under its instantiated name, with the substituted tree and no parameters left ...
                                         '%s[0] == result_name' % LAST, '%s[2] == result_tree' % LAST,
                                         # ... and carries every option of the template: modifiers, priority, template source (what hand-instantiation would write)
                                         ] + ['%s[3].%s == options.%s' % (LAST, f, f) for f in OPT]},
                 types={'@list%d' % 0: 'list[any]'},
                 names={'deepcopy': ('contract', 'deepcopy/RuleOptions'), 'RuleOptions': ('class', 'RuleOptions')}, replay=_replay)


# ---- renaming the symbols of an imported definition: every symbol occurrence in every subtree, nothing else
def register_mangle_tree(reg):
    reg.cls('Symbol', target='lark.grammar:Symbol')
    reg.cls('DTree', fields={'children': 'list[any]', 'data': 'any'})
    reg.specfun('NSUB', [('t', 'DTree')], 'int', doc='number of distinct subtrees (the tree itself included)')
    reg.specfun('SUB', [('t', 'DTree'), ('k', 'int')], 'DTree', doc='k-th subtree in the order of iter_subtrees()')
    reg.specfun('CL', [('t', 'DTree')], 'list[any]', doc='the children list a freshly copied subtree was created with')
    reg.specfun('CHN', [('t', 'DTree')], 'int')
    reg.specfun('CHAT', [('t', 'DTree'), ('i', 'int')], 'any', doc='content of that list at copy time')
    reg.specfun('REN', [('c', 'any'), ('f', 'any')], 'any', doc='the symbol c renamed by f: c.renamed(f)')
    reg.contract('lark.grammar:Symbol.renamed', assumed=True, kind='method', pure=True, params={'self': 'Symbol', 'f': 'any'}, returns='Symbol',
                 ensures=['cast(result, any) == REN(cast(self, any), f)'])
    # iter_subtrees() computes the whole list of distinct subtrees before yielding (lark/tree.py): later edits of children do not change it
    reg.contract('DTree.iter_subtrees', assumed=True, kind='method', pure=True, params={'self': 'DTree'}, returns='seq[DTree]',
                 ensures=['len(result) == NSUB(self)', 'all(result[k] is SUB(self, k) for k in range(0, NSUB(self)))'])
    K = 'for k in range(0, NSUB(x))'
    reg.contract('deepcopy/DTree', assumed=True, params={'x': 'DTree'}, returns='DTree',
                 ensures=['fresh(result)', 'NSUB(result) == NSUB(x)', 'NSUB(x) >= 1',
                          # the copy is a tree of new nodes with new children lists, one per subtree of the original, in the same order ...
                          'all(fresh(SUB(result, k)) and fresh(CL(SUB(result, k))) and SUB(result, k).children is CL(SUB(result, k)) %s)' % K,
                          'all(implies(k != j, SUB(result, k) is not SUB(result, j) and CL(SUB(result, k)) is not CL(SUB(result, j))) %s for j in range(0, NSUB(x)))' % K,
                          'all(len(CL(SUB(result, k))) == CHN(SUB(result, k)) and CHN(SUB(result, k)) == len(SUB(x, k).children) %s)' % K,
                          'all(CL(SUB(result, k))[i] == CHAT(SUB(result, k), i) %s for i in range(0, CHN(SUB(result, k))))' % K,
                          # ... whose symbol children are the original's symbols, and whose other children are not symbols
                          'all(isinstance(CHAT(SUB(result, k), i), Symbol) == isinstance(SUB(x, k).children[i], Symbol) '
                          'and implies(isinstance(SUB(x, k).children[i], Symbol), CHAT(SUB(result, k), i) == SUB(x, k).children[i]) %s for i in range(0, CHN(SUB(result, k))))' % K])
    NEW = '(REN(CHAT(%(t)s, %(i)s), mangle) if isinstance(CHAT(%(t)s, %(i)s), Symbol) else CHAT(%(t)s, %(i)s))'
    S = 'SUB(exp, k)'
    FRAME = ['all(SUB(exp, k).children is CL(SUB(exp, k)) and len(CL(SUB(exp, k))) == CHN(SUB(exp, k)) for k in range(0, NSUB(exp)))']
    reg.contract('lark.load_grammar:_mangle_definition_tree', serves=['C17'],
                 params={'exp': 'DTree', 'mangle': 'any'}, returns='DTree', modifies=[],
                 ensures=['implies(mangle is None, result is exp)',
                          'implies(mangle is not None, fresh(result) and NSUB(result) == NSUB(exp))',
                          # every symbol occurrence of every subtree is renamed; the shape is kept
                          'implies(mangle is not None, all(len(SUB(result, k).children) == old(len(SUB(exp, k).children)) for k in range(0, NSUB(exp))))',
                          'implies(mangle is not None, all(implies(isinstance(old(SUB(exp, k).children[i]), Symbol), SUB(result, k).children[i] == REN(old(SUB(exp, k).children[i]), mangle)) '
                          'for k in range(0, NSUB(exp)) for i in range(0, old(len(SUB(exp, k).children)))))',
                          'implies(mangle is not None, all(implies(not isinstance(old(SUB(exp, k).children[i]), Symbol), SUB(result, k).children[i] == CHAT(SUB(result, k), i)) '
                          'for k in range(0, NSUB(exp)) for i in range(0, old(len(SUB(exp, k).children)))))'],
                 loops={0: dict(inv=FRAME + [
                            'all(CL(%s)[i] == %s for k in range(0, _i0) for i in range(0, CHN(%s)))' % (S, NEW % dict(t=S, i='i'), S),
                            'all(CL(%s)[i] == CHAT(%s, i) for k in range(_i0, NSUB(exp)) for i in range(0, CHN(%s)))' % (S, S, S)]),
                        1: dict(inv=FRAME + [
                            't is SUB(exp, _i0)', '0 <= _i0', '_i0 < NSUB(exp)',
                            'all(CL(t)[j] == %s for j in range(0, _i1))' % (NEW % dict(t='t', i='j')),
                            'all(CL(t)[j] == CHAT(t, j) for j in range(_i1, CHN(t)))',
                            'all(CL(%s)[i] == %s for k in range(0, _i0) for i in range(0, CHN(%s)))' % (S, NEW % dict(t=S, i='i'), S),
                            'all(CL(%s)[i] == CHAT(%s, i) for k in range(_i0 + 1, NSUB(exp)) for i in range(0, CHN(%s)))' % (S, S, S)])},
                 names={'deepcopy': ('contract', 'deepcopy/DTree'), 'Symbol': ('class', 'Symbol')}, replay=_replay)
