"""C03 - the returned tree is the documented shaping of a derivation.

Kernel: the per-rule child filters.  SHAPE is stated positionally: OUTLEN(prefix of to_include) is where the contribution of an entry
starts; an entry contributes its pending None placeholders, then either the child itself or - for an inlined `_rule` - that child's
own children, in order.  NK / KID are the pure view of a child's children at entry.
"""
from pyvc.util import native_file

PROPERTY = 'C03'
TRUSTED = [
    "node_builder (tree constructor or user callback) is an arbitrary function of the filtered children list: APPLY(builder, list)",
    "run-length trick in maybe_create_child_filter ('1011'.split('0')) - builtin contract cross-checked natively",
]
ASSUMPTIONS = [
    "'every tree is the shaping of a derivation of the input' needs parser correctness (C01/C02); 'every engine returns the same tree' is cross-engine: bounded cross-check only",
]
BOUNDED = [dict(name='crosscheck.shaping', function='ChildFilter*, maybe_create_child_filter, ExpandSingleChild, PrepareAnonTerminals/FindRuleSize through Lark.parse on all engines',
                code=native_file('bounded/c03_shaping.py'),
                bound={'quick': 'reference shaper (documented rules applied to the derivation) vs Lark on 9 grammars x sample inputs x {lalr-basic, lalr-contextual, earley-basic, earley-dynamic, cyk} x maybe_placeholders x keep_all_tokens',
                       'thorough': 'same with longer inputs'},
                note='CPython cross-check and replay search; engines must agree on single-derivation inputs; not counted as obligations')]


def _replay(model):
    return native_file('bounded/c03_shaping.py')


T3 = 'tuple[int,bool,int]'
T2 = 'tuple[int,bool]'


def register(reg):
    S = ['C03', 'C16']
    register_options(reg)
    # a child is None (placeholder), a token or a tree; only trees of inlined `_rules` are opened.  None is the null reference.
    reg.cls('Node', fields={'children': 'list[opt[Node]]'})
    reg.cls('ChildFilter', target='lark.parse_tree_builder:ChildFilter',
            fields={'node_builder': 'any', 'to_include': 'list[%s]' % T3, 'append_none': 'int'})
    reg.cls('ChildFilterLALR', target='lark.parse_tree_builder:ChildFilterLALR', bases=['ChildFilter'])
    reg.cls('ChildFilterLALR_NoPlaceholders', target='lark.parse_tree_builder:ChildFilterLALR_NoPlaceholders',
            fields={'node_builder': 'any', 'to_include': 'list[%s]' % T2})
    reg.specfun('NK', [('c', 'opt[Node]')], 'int', doc='number of children of a child node (at entry)')
    reg.specfun('KID', [('c', 'opt[Node]'), ('j', 'int')], 'opt[Node]', doc='j-th child of a child node (at entry)')
    reg.specfun('APPLY', [('f', 'any'), ('xs', 'list[opt[Node]]')], 'any')
    # the documented shaping, positionally: an entry contributes its pending None placeholders, then the child itself or - for an
    # inlined `_rule` - that child's own children, in order
    reg.specfun('OUTLEN', [('xs', 'seq[%s]' % T3), ('ch', 'seq[opt[Node]]')], 'int',
                body='0 if len(xs) <= 0 else OUTLEN(prefix(xs, len(xs)-1), ch) + xs[len(xs)-1][2] + (NK(ch[xs[len(xs)-1][0]]) if xs[len(xs)-1][1] else 1)')
    reg.specfun('OUTAT', [('xs', 'seq[%s]' % T3), ('ch', 'seq[opt[Node]]'), ('p', 'int')], 'opt[Node]',
                body='None if len(xs) <= 0 else (OUTAT(prefix(xs, len(xs)-1), ch, p) if p < OUTLEN(prefix(xs, len(xs)-1), ch) else '
                     '(None if p < OUTLEN(prefix(xs, len(xs)-1), ch) + xs[len(xs)-1][2] else '
                     '(KID(ch[xs[len(xs)-1][0]], p - OUTLEN(prefix(xs, len(xs)-1), ch) - xs[len(xs)-1][2]) if xs[len(xs)-1][1] else ch[xs[len(xs)-1][0]])))')
    reg.specfun('OUTLEN2', [('xs', 'seq[%s]' % T2), ('ch', 'seq[opt[Node]]')], 'int',
                body='0 if len(xs) <= 0 else OUTLEN2(prefix(xs, len(xs)-1), ch) + (NK(ch[xs[len(xs)-1][0]]) if xs[len(xs)-1][1] else 1)')
    reg.specfun('OUTAT2', [('xs', 'seq[%s]' % T2), ('ch', 'seq[opt[Node]]'), ('p', 'int')], 'opt[Node]',
                body='None if len(xs) <= 0 else (OUTAT2(prefix(xs, len(xs)-1), ch, p) if p < OUTLEN2(prefix(xs, len(xs)-1), ch) else '
                     '(KID(ch[xs[len(xs)-1][0]], p - OUTLEN2(prefix(xs, len(xs)-1), ch)) if xs[len(xs)-1][1] else ch[xs[len(xs)-1][0]]))')
    for f in ('OUTLEN', 'OUTAT', 'OUTLEN2', 'OUTAT2'):
        reg.specfuns[f].prefix = False

    TI = 'self.to_include'
    TI0 = 'old(seq(self.to_include))'
    CH = 'old(seq(children))'
    VIEW = ['all(implies(%s[k][1], children[%s[k][0]] is not None and len(children[%s[k][0]].children) == NK(children[%s[k][0]]) '
            'and all(children[%s[k][0]].children[j] == KID(children[%s[k][0]], j) for j in range(0, NK(children[%s[k][0]])))) for k in range(0, len(%s)))' % ((TI,) * 8),
            'all(0 <= %s[k][0] and %s[k][0] < len(children) for k in range(0, len(%s)))' % (TI, TI, TI),
            'all(NK(c) >= 0 for c in NODES)']
    NONNEG = ['all(%s[k][2] >= 0 for k in range(0, len(%s)))' % (TI, TI), 'self.append_none >= 0']
    CB = {'callv:self.node_builder#0': dict(returns='any', assumes=['result == APPLY(fn, arg0)'])}

    def post(OL, OA, tail):
        tot = '%s(%s, %s)' % (OL, TI0, CH)
        res = ['result == APPLY(self.node_builder, filtered)',
               'len(filtered) == %s%s' % (tot, ' + self.append_none' if tail else ''),
               # every position below the total carries what the documented shaping puts there ...
               'all(implies(0 <= p and p < %s, filtered[p] == %s(%s, %s, p)) for p in INT)' % (tot, OA, TI0, CH)]
        if tail:
            res.append('all(implies(%s <= p and p < len(filtered), filtered[p] is None) for p in INT)' % tot)      # ... then the trailing placeholders
        return res

    def inv(OL, OA):
        return ['self.to_include is old(self.to_include)', 'seq(self.to_include) == %s' % TI0, 'seq(children) == %s' % CH,
                'len(filtered) == %s(prefix(%s, _i0), %s)' % (OL, TI0, CH),
                'all(implies(0 <= p and p < len(filtered), filtered[p] == %s(prefix(%s, _i0), %s, p)) for p in INT)' % (OA, TI0, CH)]

    reg.contract('lark.parse_tree_builder:ChildFilter.__call__', serves=S, kind='method',
                 params={'self': 'ChildFilter', 'children': 'list[opt[Node]]'}, returns='any',
                 types={'filtered': 'list[opt[Node]]'},
                 requires=VIEW + NONNEG, ghost=CB,
                 ensures=post('OUTLEN', 'OUTAT', True) + ['fresh(filtered)', 'seq(children) == %s' % CH],     # the input list is not changed
                 loops={0: dict(inv=['fresh(filtered)'] + VIEW[:2] + NONNEG + inv('OUTLEN', 'OUTAT'))},
                 replay=_replay)

    # ---- the LALR variants re-use the child list of the first inlined child (left recursion): same content, but the list that is
    # extended in place belongs to that child.  Sound only because an LALR parse tree shares no sub-tree (the documented assumption).
    DIST = ['all(implies(%s[k][1] and %s[m][1] and k != m, children[%s[k][0]].children is not children[%s[m][0]].children) '
            'for k in range(0, len(%s)) for m in range(0, len(%s)))' % (TI, TI, TI, TI, TI, TI),
            'all(implies(%s[k][1], children[%s[k][0]].children is not children and children[%s[k][0]].children is not %s) for k in range(0, len(%s)))' % (TI, TI, TI, TI, TI)]
    VIEW_REST = ['all(implies(%s[k][1], children[%s[k][0]] is not None and len(children[%s[k][0]].children) == NK(children[%s[k][0]]) '
                 'and all(children[%s[k][0]].children[j] == KID(children[%s[k][0]], j) for j in range(0, NK(children[%s[k][0]])))) for k in range(_i0, len(%s)))' % ((TI,) * 8)]
    OWNED = ('fresh(filtered) or any(%s[k][1] and filtered is children[%s[k][0]].children for k in range(0, _i0))' % (TI, TI))
    reg.contract('lark.parse_tree_builder:ChildFilterLALR.__call__', serves=S + ['C13'], kind='method',
                 params={'self': 'ChildFilterLALR', 'children': 'list[opt[Node]]'}, returns='any',
                 types={'filtered': 'list[opt[Node]]'},
                 requires=VIEW + NONNEG + DIST, ghost={'Assign#1': ['len(filtered) == 0', 'len(children[i].children) == NK(children[i])',
                                       'children[i] == %s[%s[_i0][0]]' % (CH, TI0),
                                       'all(implies(0 <= j and j < NK(children[i]), children[i].children[j] == KID(children[i], j)) for j in INT)'],
                          'callv:self.node_builder#0': CB['callv:self.node_builder#0']},
                 modifies=["mapattr(children, 'children')"],        # only child lists of the given children (of the first inlined one, in fact)
                 ensures=post('OUTLEN', 'OUTAT', True) + ['seq(children) == %s' % CH],
                 loops={0: dict(inv=[OWNED] + VIEW[1:2] + VIEW_REST + NONNEG + DIST + inv('OUTLEN', 'OUTAT'))},
                 replay=_replay)

    TI2 = 'self.to_include'
    VIEW2 = [v.replace('ChildFilter', 'ChildFilter') for v in VIEW]
    reg.contract('lark.parse_tree_builder:ChildFilterLALR_NoPlaceholders.__call__', serves=S + ['C13'], kind='method',
                 params={'self': 'ChildFilterLALR_NoPlaceholders', 'children': 'list[opt[Node]]'}, returns='any',
                 types={'filtered': 'list[opt[Node]]'},
                 requires=VIEW + DIST, ghost={'Assign#1': ['len(filtered) == 0', 'len(children[i].children) == NK(children[i])',
                                       'children[i] == %s[%s[_i0][0]]' % (CH, TI0),
                                       'all(implies(0 <= j and j < NK(children[i]), children[i].children[j] == KID(children[i], j)) for j in INT)'],
                          'callv:self.node_builder#0': CB['callv:self.node_builder#0']},
                 modifies=["mapattr(children, 'children')"],
                 ensures=post('OUTLEN2', 'OUTAT2', False) + ['seq(children) == %s' % CH],
                 loops={0: dict(inv=[OWNED] + VIEW[1:2] + VIEW_REST + DIST + inv('OUTLEN2', 'OUTAT2'))},
                 replay=_replay)

    # ---- which symbols a rule keeps, which are inlined, and how many placeholders go where (region of maybe_create_child_filter that
    # consumes the per-position placeholder counts `empty_indices`; the run-length decoding above it is covered by the bounded cross-check)
    import ast as _ast

    def include_region(fn):
        out, on = [], False
        for s_ in fn.body:
            if isinstance(s_, _ast.Assign) and _ast.unparse(s_.targets[0]) == 'to_include':
                on = True
            if on and isinstance(s_, _ast.If):
                break
            if on:
                out.append(s_)
        return out if len(out) == 4 else None

    reg.cls('Sym', consts={'is_term': 'bool', 'name': 'str', 'filter_out': 'bool'})
    reg.specfun('SUMEI', [('ei', 'seq[int]'), ('a', 'int'), ('b', 'int')], 'int', body='0 if b <= a else SUMEI(ei, a, b - 1) + ei[b - 1]')
    reg.specfuns['SUMEI'].prefix = False
    reg.contract('lark.parse_tree_builder:_should_expand', serves=S, params={'sym': 'Sym'}, returns='bool', pure=True,
                 # underscore-prefixed RULES are inlined (terminals never)
                 ensures=["result == (not sym.is_term and sym.name.startswith('_'))"])
    KEPT = lambda s_: '(keep_all_tokens or not (%s.is_term and %s.filter_out))' % (s_, s_)
    PREV = lambda k: '(to_include[%s - 1][0] if %s >= 1 else -1)' % (k, k)
    ENTRIES = lambda upto: [
        'all(0 <= to_include[k][0] and to_include[k][0] < %s and %s for k in range(0, len(to_include)))' % (upto, KEPT('expansion[to_include[k][0]]')),
        # children keep input order; a kept symbol appears exactly once
        'all(to_include[k][0] < to_include[m][0] for k in range(0, len(to_include)) for m in range(k + 1, len(to_include)))',
        'all(implies(%s < j and j < to_include[k][0], not %s) for k in range(0, len(to_include)) for j in INT)' % (PREV('k'), KEPT('expansion[j]')),
        'all(implies(%s < j and j < %s, not %s) for j in INT)' % ('(to_include[len(to_include) - 1][0] if len(to_include) >= 1 else -1)', upto, KEPT('expansion[j]')),
        "all(to_include[k][1] == (not expansion[to_include[k][0]].is_term and expansion[to_include[k][0]].name.startswith('_')) for k in range(0, len(to_include)))",
        # every placeholder between the previous kept symbol and this one is emitted right before this one
        'all(to_include[k][2] == SUMEI(seq(empty_indices), %s + 1, to_include[k][0] + 1) for k in range(0, len(to_include)))' % PREV('k'),
    ]
    LAST = '(to_include[len(to_include) - 1][0] if len(to_include) >= 1 else -1)'
    reg.contract('lark.parse_tree_builder:maybe_create_child_filter#include', serves=S, region=include_region,
                 params={'expansion': 'list[Sym]', 'keep_all_tokens': 'bool', 'empty_indices': 'list[int]'},
                 types={'to_include': 'list[%s]' % T3},
                 requires=['len(empty_indices) == len(expansion) + 1'],
                 ghost={'ensures_fall': ENTRIES('len(expansion)') + [
                     # ... and the rest after the last kept symbol
                     'nones_to_add == SUMEI(seq(empty_indices), %s + 1, len(expansion) + 1)' % LAST]},
                 loops={0: dict(inv=['fresh(to_include)', 'len(empty_indices) == len(expansion) + 1'] + ENTRIES('_i0') + [
                     'nones_to_add == SUMEI(seq(empty_indices), %s + 1, _i0)' % LAST])},
                 names={'_should_expand': ('contract', 'lark.parse_tree_builder:_should_expand')},
                 replay=_replay)

    reg.cls('ExpandSingleChild', target='lark.parse_tree_builder:ExpandSingleChild', fields={'node_builder': 'any'})
    reg.contract('lark.parse_tree_builder:ExpandSingleChild.__call__', serves=S, kind='method',
                 params={'self': 'ExpandSingleChild', 'children': 'list[opt[Node]]'}, returns='any',
                 ghost={'callv:self.node_builder#0': dict(returns='any', assumes=['result == APPLY(fn, arg0)'])},
                 # a ?rule with exactly one child is replaced by it
                 ensures=['implies(len(children) == 1, result == children[0])', 'implies(len(children) != 1, result == APPLY(self.node_builder, children))'],
                 replay=_replay)


# ---- an alternative that leaves out a [..] gets its OWN copy of its rule's options (modifiers stay per rule), plus its placeholder layout
def _options_region(fn):
    import ast
    for n in ast.walk(fn):
        if isinstance(n, ast.If) and ast.unparse(n.test) == 'any(empty_indices)':
            out = [s for s in n.body if (isinstance(s, ast.Assign) and ast.unparse(s.targets[0]) in ('exp_options', 'exp_options.empty_indices'))]
            # exactly the two assignments, first in the branch: any other shape (a cache, a condition) loses the selector
            if len(out) == 2 and n.body[:2] == out:
                return out
    return None


def _own_options_region(fn):
    """head of the loop over the rules to compile: everything before the rule tree is simplified (the unpacking of the rule entry and
    whatever is done to its options there)"""
    import ast
    for n in ast.walk(fn):
        if isinstance(n, ast.For) and isinstance(n.target, ast.Name) and n.target.id == 'rule_content':
            out = []
            for st_ in n.body:
                if isinstance(st_, ast.Expr):
                    break
                out.append(st_)
            if out and isinstance(out[0], ast.Assign) and ast.unparse(out[0].value) == 'rule_content' and all(isinstance(x, ast.Assign) for x in out):
                return out
    return None


def register_options(reg):
    OPT = ('keep_all_tokens', 'expand1', 'priority', 'template_source')
    reg.cls('RuleOptions', target='lark.grammar:RuleOptions', fields=dict({f: 'any' for f in OPT}, empty_indices='any'))
    reg.contract('lark.grammar:RuleOptions.__init__', assumed=True, kind='method', modifies=['self'], params={'self': 'RuleOptions'},
                 ensures=['self.keep_all_tokens == cast(False, any)', 'self.expand1 == cast(False, any)', 'is_none(self.priority)', 'is_none(self.template_source)'])
    reg.contract('copy/RuleOptions', assumed=True, params={'x': 'opt[RuleOptions]'}, returns='opt[RuleOptions]',
                 ensures=['(result is None) == (x is None)', 'implies(x is not None, fresh(val(result)))'] +
                         ['implies(x is not None, val(result).%s == val(x).%s)' % (f, f) for f in OPT + ('empty_indices',)])
    # every compilation of a Grammar object gives its rules options objects of its OWN (Lark.__init__ strips / negates rule priorities in
    # place: C05, and another instance built from the same Grammar must not see that: C10 - F47)
    reg.contract('lark.load_grammar:Grammar.compile#own-options', serves=['C03', 'C10', 'C05'], region=_own_options_region,
                 params={'rule_content': 'tuple[str,any,opt[RuleOptions]]'},
                 ghost={'ensures_fall': ['(options is None) == (rule_content[2] is None)', 'implies(options is not None, fresh(val(options)))'] +
                        ['implies(options is not None, val(options).%s == old(val(rule_content[2]).%s))' % (f, f) for f in OPT + ('empty_indices',)] +
                        ['implies(options is not None, val(rule_content[2]).%s == old(val(rule_content[2]).%s))' % (f, f) for f in OPT + ('empty_indices',)]},
                 names={'copy': ('contract', 'copy/RuleOptions'), 'RuleOptions': ('class', 'RuleOptions')}, replay=_replay)
    reg.contract('lark.load_grammar:Grammar.compile#options', serves=['C03'], region=_options_region,
                 params={'options': 'opt[RuleOptions]', 'empty_indices': 'any'},
                 ghost={'ensures_fall': ['fresh(exp_options)', 'exp_options.empty_indices == empty_indices'] +
                        ['implies(options is not None, exp_options.%s == old(val(options).%s))' % (f, f) for f in OPT] +
                        ['implies(options is not None, val(options).%s == old(val(options).%s))' % (f, f) for f in OPT + ('empty_indices',)] +      # the rule's own options object is not touched
                        ['implies(options is None, exp_options.keep_all_tokens == cast(False, any) and exp_options.expand1 == cast(False, any) and is_none(exp_options.priority))']},
                 names={'copy': ('contract', 'copy/RuleOptions'), 'RuleOptions': ('class', 'RuleOptions')}, replay=_replay)
