"""C11 - saved, cached and stand-alone parsers behave like the original.

Deductive kernel (small: the serialisation layer itself dispatches through computed getattr/setattr, outside the verified subset):
  Enumerator.get / reversed            token-name numbering of the parse-table encoding is injective and `reversed` is its inverse
  Lark._load options region            options after load = saved options overridden by the load-time kwargs; the saved data is not written
  Lark._deserialize_lexer_conf         exactly callbacks, re module, use_bytes, g_regex_flags, postlex are re-attached from the CURRENT options
  Pattern._deserialize                 flags are a frozenset again after loading (F2)
plus the cache kernels of C12 (UNIT).  Observational equality of whole parsers is a bounded stand-in.
"""
import ast
import z3
from pyvc.ty import SV, ANY, AnyS
from pyvc.util import native_file

PROPERTY = 'C11'
UNITS = ['C11', 'C12']
TRUSTED = ["dict comprehension: image dict; same size when the key expression is injective on the source",
           "frozenset(x) is a frozenset with the elements of x"]
ASSUMPTIONS = ["utils._serialize/_deserialize, Serialize.serialize/deserialize, ParseTableBase.serialize/deserialize and the stand-alone generator are covered by the bounded stand-in only",
               "observational equality for ALL grammars and inputs is not decided"]
BOUNDED = [dict(name='standin.roundtrip', function='Lark.save/Lark.load, cache=, tools.standalone: observational equality with the direct instance',
                code=native_file('bounded/c11_roundtrip.py'),
                bound={'quick': '7 grammars (flags, filtered/kept same-name terminals, priorities, templates, placeholders, positions) x sample inputs x {save/load, cache hit, stand-alone module} x {parse, lex, interactive accepts, scan}; load-time options',
                       'thorough': 'same with more inputs'},
                note='bounded stand-in: never counted as proved')]


def _replay(model):
    return native_file('bounded/c11_roundtrip.py')


def load_options_region(fn):
    out, on = [], False
    for s in fn.body:
        if isinstance(s, ast.Assign) and ast.unparse(s.targets[0]) == 'options' and 'data' in ast.unparse(s.value):
            on = True
        if on:
            out.append(s)
        if on and isinstance(s, ast.Expr) and 'options.update' in ast.unparse(s):
            return out
    return None


def register(reg):
    S = ['C11']
    reg.cls('Enumerator', target='lark.utils:Enumerator', fields={'enums': 'dict[any,int]'})
    INJ = ['all(implies(a in self.enums and b in self.enums and a != b, self.enums[a] != self.enums[b]) for a in ANYV for b in ANYV)',
           'all(implies(a in self.enums, 0 <= self.enums[a] and self.enums[a] < len(self.enums)) for a in ANYV)']
    reg.contract('lark.utils:Enumerator.get', serves=S, kind='method',
                 params={'self': 'Enumerator', 'item': 'any'}, returns='int',
                 requires=INJ, modifies=['self.enums'],
                 ensures=INJ + ['item in self.enums', 'result == self.enums[item]',
                                # an item seen before keeps its number; a new one gets the next free number; nobody else is renumbered
                                'implies(item in old(dom(self.enums)), result == old(content(self.enums))[item])',
                                'implies(item not in old(dom(self.enums)), result == old(len(self.enums)))',
                                'all(implies(a in old(dom(self.enums)), a in self.enums and self.enums[a] == old(content(self.enums))[a]) for a in ANYV)'],
                 replay=_replay)
    reg.contract('lark.utils:Enumerator.reversed', serves=S, kind='method',
                 params={'self': 'Enumerator'}, returns='dict[int,any]',
                 requires=INJ,
                 # the inverse map: decoding a number gives back the item it was issued for
                 ensures=['fresh(result)', 'all(implies(a in self.enums, self.enums[a] in result and result[self.enums[a]] == a) for a in ANYV)',
                          'all(implies(n in result, any(b in self.enums and self.enums[b] == n for b in ANYV)) for n in INT)'],
                 raises={}, replay=_replay)

    # ---- options of a loaded instance
    reg.cls('LarkOptions')
    reg.global_names['_LOAD_ALLOWED_OPTIONS'] = ('sv', SV(ANY, z3.Const('_LOAD_ALLOWED_OPTIONS', AnyS)))
    reg.cls('ConfigurationError', exception=True, bases=['Exception'])
    reg.specfun('BADKW', [('kw', 'dict[str,any]')], 'bool', doc='some keyword is a known option that may not be given at load time')
    reg.contract('badkw', assumed=True, pure=True, params={'kwargs': 'dict[str,any]'}, ghost_params=['kwargs'], returns='bool', ensures=['result == BADKW(kwargs)'])
    reg.contract('dict/copy', assumed=True, params={'d': 'any'}, returns='dict[str,any]',
                 ensures=['fresh(result)', 'all((k in result) == SAVEDHAS(d, k) and implies(SAVEDHAS(d, k), result[k] == SAVEDVAL(d, k)) for k in STR)'])
    reg.specfun('SAVEDHAS', [('d', 'any'), ('k', 'str')], 'bool')
    reg.specfun('SAVEDVAL', [('d', 'any'), ('k', 'str')], 'any')
    reg.contract('dict.update', assumed=True, kind='method', params={'self': 'dict[str,any]', 'other': 'dict[str,any]'}, modifies=['self'],
                 ensures=['all((k in self) == (k in old(dom(self)) or k in other) and implies(k in other, self[k] == other[k]) '
                          'and implies(k not in other and k in old(dom(self)), self[k] == old(content(self))[k]) for k in STR)'])
    reg.contract('lark.lark:Lark._load#options', serves=S, region=load_options_region,
                 params={'data': 'dict[str,any]', 'kwargs': 'dict[str,any]'},
                 modifies=[],              # neither the saved data (shared by every instance made from it) nor the caller's kwargs are written
                 raises={'ConfigurationError': ['BADKW(kwargs)']},
                 ghost={'ensures_fall': [
                     'not BADKW(kwargs)', 'fresh(options)',
                     # saved options, overridden by what the caller passes now
                     "all((k in options) == (SAVEDHAS(data['options'], k) or k in kwargs) and implies(k in kwargs, options[k] == kwargs[k]) "
                     "and implies(k not in kwargs and SAVEDHAS(data['options'], k), options[k] == SAVEDVAL(data['options'], k)) for k in STR)"]},
                 names={"expr:dict(data['options'])": ('contract', 'dict/copy/expr'),
                        'expr:set(kwargs) - _LOAD_ALLOWED_OPTIONS & set(LarkOptions._defaults)': ('contract', 'badkw'),
                        'ConfigurationError': ('class', 'ConfigurationError')},
                 replay=_replay)
    reg.contract('dict/copy/expr', assumed=True, params={'data': 'dict[str,any]'}, ghost_params=['data'], returns='dict[str,any]',
                 ensures=['fresh(result)', "all((k in result) == SAVEDHAS(data['options'], k) and implies(SAVEDHAS(data['options'], k), result[k] == SAVEDVAL(data['options'], k)) for k in STR)"])

    reg.cls('LexerConf', fields={'callbacks': 'any', 're_module': 'any', 'use_bytes': 'any', 'g_regex_flags': 'any', 'skip_validation': 'bool', 'postlex': 'any'})
    reg.cls('Options', consts={'lexer_callbacks': 'any', 'regex': 'any', 'use_bytes': 'any', 'g_regex_flags': 'any', 'postlex': 'any'})
    reg.cls('Lark', target='lark.lark:Lark')
    RE, REGEX = SV(ANY, z3.Const('module!re', AnyS)), SV(ANY, z3.Const('module!regex', AnyS))
    reg.contract('LexerConf.deserialize', assumed=True, kind='staticmethod', params={'data': 'any', 'memo': 'any'}, returns='LexerConf', ensures=['fresh(result)'])
    reg.contract('lark.lark:Lark._deserialize_lexer_conf', serves=S, kind='method',
                 params={'self': 'Lark', 'data': 'dict[str,any]', 'memo': 'any', 'options': 'Options'}, returns='LexerConf',
                 ensures=['fresh(result)',
                          # everything that is not saved comes from the options in force NOW
                          'result.use_bytes == options.use_bytes', 'result.g_regex_flags == options.g_regex_flags', 'result.postlex == options.postlex',
                          'result.re_module == (REGEX if truthy(options.regex) else RE)',
                          'implies(truthy(options.lexer_callbacks), result.callbacks == options.lexer_callbacks)',
                          'result.skip_validation'],
                 raises={'KeyError': []},
                 names={'regex': ('sv', REGEX), 're': ('sv', RE), 'REGEX': ('sv', REGEX), 'RE': ('sv', RE), 'LexerConf.deserialize': ('contract', 'LexerConf.deserialize')},
                 replay=_replay)

    reg.cls('Pattern', target='lark.lexer:Pattern', fields={'flags': 'any'})
    reg.specfun('ISFROZENSET', [('x', 'any')], 'bool')
    reg.specfun('ELEMS', [('x', 'any'), ('e', 'any')], 'bool', doc='e is an element of the collection x')
    reg.contract('frozenset', assumed=True, pure=True, params={'x': 'any'}, returns='any',
                 ensures=['ISFROZENSET(result)', 'all(ELEMS(result, e) == ELEMS(x, e) for e in ANYV)'])
    reg.contract('lark.lexer:Pattern._deserialize', serves=S, kind='method', params={'self': 'Pattern'}, modifies=['self'],
                 # the lexer compares flags with set inclusion (`<=`): after loading they must be a set again, with the same members
                 ensures=['ISFROZENSET(self.flags)', 'all(ELEMS(self.flags, e) == ELEMS(old(self.flags), e) for e in ANYV)'],
                 names={'frozenset': ('contract', 'frozenset')}, replay=_replay)
