"""C13 - interactive parser: forks are independent (ownership), accepts() is the set of feedable terminals, delegation to the driver."""
from pyvc.util import native_file
from . import lalrmodel

PROPERTY = 'C13'
UNITS = ['C13', 'C02', 'C03']  # the driver ParserState.feed_token is verified in C02's unit, the LALR child filters (which re-use their first child's list in place) in C03's; their obligations are re-generated here too
TRUSTED = list(lalrmodel.TRUSTED) + [
    "copy.deepcopy(list): a fresh list of the same length (lark's Tree/Token __deepcopy__ are not under contract); copy.copy of an object without __copy__ is a fresh shallow copy",
    "type(self)(...) constructs the statically declared class (no subclass of the parser-state classes is in play)",
]
ASSUMPTIONS = [
    "values on the value stack are opaque (`any`): independence of forks is proved for the parser/lexer state objects and the two stacks, not for the trees the callbacks build",
    "accepts(): the '$END' entry is not specified (end-of-input acceptance depends on whether a reduction happened); all other terminals are specified exactly",
]

BOUNDED = [dict(name='crosscheck.interactive', function='InteractiveParser.copy/as_immutable/accepts/feed_token/resume_parse on real parsers',
                code=native_file('bounded/c13_interactive.py'),
                bound={'quick': '4 grammars x all token prefixes of the sample inputs; forks fed/resumed independently',
                       'thorough': 'same, longer inputs'},
                note='CPython cross-check of the executable contracts and replay search; not counted as obligations')]


def _replay(model):
    return native_file('bounded/c13_interactive.py')


def register(reg):
    lalrmodel.register_lalr(reg, serves=['C02', 'C08', 'C13'])
    reg.contracts['lark.parsers.lalr_parser_state:ParserState.feed_token'].serves = ['C02', 'C08']     # verified under C02; used here by contract
    reg.contracts['lark.parsers.lalr_parser_state:ParserState.feed_token'].assumed_here = True

    reg.cls('ParseTable', fields={'states': 'StatesTable'})
    reg.classes['ParseConf'].fields['parse_table'] = __import__('pyvc.ty', fromlist=['parse_type']).parse_type('ParseTable')
    reg.cls('InteractiveParser', target='lark.parsers.lalr_interactive_parser:InteractiveParser',
            fields={'parser': 'any', 'parser_state': 'ParserState', 'lexer_thread': 'LexerThread', 'result': 'any'})
    reg.cls('ImmutableInteractiveParser', target='lark.parsers.lalr_interactive_parser:ImmutableInteractiveParser', bases=['InteractiveParser'])

    # ---- externals
    reg.contract('deepcopy/list', assumed=True, params={'x': 'list[Value]'}, returns='list[Value]',
                 ensures=['fresh(result)', 'len(result) == len(x)',
                          # every element is a new object (lark's Tree.__deepcopy__ / Token.__deepcopy__ build new instances)
                          'all(fresh(result[i]) for i in range(0, len(result)))'])
    reg.contract('LexerThread._Token', assumed=True, kind='staticmethod',
                 params={'type': 'str', 'value': 'str', 'start_pos': 'int', 'line': 'int', 'column': 'int'}, returns='Token',
                 ghost={'defaults': {'start_pos': 0, 'line': 0, 'column': 0}},
                 ensures=['fresh(result)', 'result.type == type'])
    reg.contract('lark.lexer:LexerState.__init__', assumed=True, kind='method',
                 params={'self': 'LexerState', 'text': 'any', 'line_ctr': 'opt[LineCounter]', 'last_token': 'opt[Token]'},
                 modifies=['self'], ghost={'defaults': {'line_ctr': None, 'last_token': None}},
                 ensures=['self.text == text', 'implies(line_ctr is not None, self.line_ctr is line_ctr)', 'self.last_token is last_token'])
    reg.contract('Row.__iter__', assumed=True, kind='method', params={'self': 'Row'}, returns='seq[str]',
                 ensures=['all(HAS(self.table, self.state, result[i]) for i in range(0, len(result)))',
                          'all(result[i] != result[j] for i in range(0, len(result)) for j in range(i + 1, len(result)))',
                          'all(implies(HAS(self.table, self.state, k), any(result[i] == k for i in range(0, len(result)))) for k in STR)'])

    S = ['C13']

    def SAMEFUN(new, old_):
        """every LR spec function of the copied state stack has the value it has on the original (the copy has the same content)"""
        a = '%s.parse_conf.states, seq(%s.state_stack), k, ie, %s.parse_conf.end_state' % (new, new, new)
        b = '%s.parse_conf.states, seq(%s.state_stack), k, ie, %s.parse_conf.end_state' % (old_, old_, old_)
        return ['all(VALID(%s) == VALID(%s) for k in STR for ie in BOOL if trig(VALID(%s)) if trig(VALID(%s)))' % (a, b, a, b),
                'all(LRN(%s) == LRN(%s) for k in STR for ie in BOOL if trig(LRN(%s)) if trig(LRN(%s)))' % (a, b, a, b),
                'all(LRE(%s, i) == LRE(%s, i) for k in STR for ie in BOOL for i in INT if trig(LRE(%s, i)) if trig(LRE(%s, i)))' % (a, b, a, b)]
    # ---- lexer side
    reg.contract('lark.lexer:LexerThread.__init__', serves=S, kind='method',
                 params={'self': 'LexerThread', 'lexer': 'any', 'lexer_state': 'opt[LexerState]'}, modifies=['self'],
                 ensures=['self.lexer == lexer', 'self.state is lexer_state'])
    SAMEPOS = ('result.line_ctr.char_pos == self.line_ctr.char_pos and result.line_ctr.line == self.line_ctr.line and '
               'result.line_ctr.column == self.line_ctr.column and result.line_ctr.line_start_pos == self.line_ctr.line_start_pos')
    reg.contract('lark.lexer:LexerState.__copy__', serves=S, kind='method',
                 params={'self': 'LexerState'}, returns='LexerState',
                 ensures=['fresh(result)', 'fresh(result.line_ctr)', 'result.text == self.text', 'result.last_token is self.last_token', SAMEPOS],
                 replay=_replay)
    reg.contract('lark.lexer:LexerThread.__copy__', serves=S, kind='method',
                 params={'self': 'LexerThread'}, returns='LexerThread',
                 ensures=['fresh(result)', 'result.lexer == self.lexer', 'implies(self.state is None, result.state is None)',
                          'implies(self.state is not None, result.state is not None and fresh(result.state) and fresh(result.state.line_ctr) '
                          'and result.state.line_ctr.char_pos == self.state.line_ctr.char_pos and result.state.last_token is self.state.last_token)'],
                 replay=_replay)

    # ---- parser state
    reg.contract('lark.parsers.lalr_parser_state:ParserState.__init__', serves=S + ['C10'], kind='method',
                 params={'self': 'ParserState', 'parse_conf': 'ParseConf', 'lexer': 'opt[LexerThread]',
                         'state_stack': 'opt[list[int]]', 'value_stack': 'opt[list[Value]]'},
                 ghost={'defaults': {'state_stack': None, 'value_stack': None}},
                 modifies=['self'],
                 ensures=['self.parse_conf is parse_conf', 'self.lexer is lexer',
                          # a fresh state per parse: no stack of a previous call is reused (C10)
                          'implies(state_stack is not None and len(state_stack) > 0, self.state_stack is state_stack)',
                          'implies(state_stack is None or len(state_stack) == 0, fresh(self.state_stack) and seq(self.state_stack) == [parse_conf.start_state])',
                          'implies(value_stack is not None and len(value_stack) > 0, self.value_stack is value_stack)',
                          'implies(value_stack is None or len(value_stack) == 0, fresh(self.value_stack) and len(self.value_stack) == 0)'],
                 replay=_replay)
    reg.contract('lark.parsers.lalr_parser_state:ParserState.position', serves=S, kind='property', pure=True,
                 params={'self': 'ParserState'}, returns='int',
                 requires=['len(self.state_stack) >= 1'], ensures=['result == self.state_stack[len(self.state_stack)-1]'])
    reg.contract('lark.parsers.lalr_parser_state:ParserState.copy', serves=S + ['C10'], kind='method',
                 params={'self': 'ParserState', 'deepcopy_values': 'bool'}, returns='ParserState',
                 ghost={'defaults': {'deepcopy_values': True}},
                 requires=['len(self.state_stack) >= 1'],
                 ensures=['fresh(result)', 'result.parse_conf is self.parse_conf', 'result.lexer is self.lexer',
                          'fresh(result.state_stack)', 'seq(result.state_stack) == seq(self.state_stack)',
                          'fresh(result.value_stack)', 'len(result.value_stack) == len(self.value_stack)',
                          'implies(not deepcopy_values, seq(result.value_stack) == seq(self.value_stack))',
                          'implies(deepcopy_values, all(fresh(result.value_stack[i]) for i in range(0, len(result.value_stack))))'] + SAMEFUN('result', 'self'),
                 names={'copy': ('builtin', 'copy'), 'deepcopy': ('builtin', 'deepcopy')},
                 replay=_replay)
    reg.contract('lark.parsers.lalr_parser_state:ParserState.__copy__', serves=S, kind='method',
                 params={'self': 'ParserState'}, returns='ParserState', requires=['len(self.state_stack) >= 1'],
                 ensures=['fresh(result)', 'fresh(result.state_stack)', 'fresh(result.value_stack)', 'seq(result.state_stack) == seq(self.state_stack)',
                          'all(fresh(result.value_stack[i]) for i in range(0, len(result.value_stack)))'] + SAMEFUN('result', 'self'),
                 replay=_replay)

    # ---- interactive parser
    reg.contract('lark.parsers.lalr_interactive_parser:InteractiveParser.__init__', serves=S, kind='method',
                 params={'self': 'InteractiveParser', 'parser': 'any', 'parser_state': 'ParserState', 'lexer_thread': 'LexerThread'},
                 modifies=['self'],
                 ensures=['self.parser == parser', 'self.parser_state is parser_state', 'self.lexer_thread is lexer_thread'])
    OWN = ['fresh(result)', 'fresh(result.parser_state)', 'fresh(result.lexer_thread)',
           'fresh(result.parser_state.state_stack)', 'fresh(result.parser_state.value_stack)',
           'seq(result.parser_state.state_stack) == seq(self.parser_state.state_stack)',
           'len(result.parser_state.value_stack) == len(self.parser_state.value_stack)',
           'result.parser_state.parse_conf is self.parser_state.parse_conf',
           'implies(self.lexer_thread.state is not None, result.lexer_thread.state is not None and fresh(result.lexer_thread.state) and fresh(result.lexer_thread.state.line_ctr))',
           # class invariant of every interactive parser: the parser state reads from this parser's own lexer thread.
           # Without it resume_parse() on a fork consumes the original's input.
           'result.parser_state.lexer is result.lexer_thread'] + SAMEFUN('result.parser_state', 'self.parser_state')
    DEEP = 'all(fresh(result.parser_state.value_stack[i]) for i in range(0, len(result.parser_state.value_stack)))'
    PRE = ['len(self.parser_state.state_stack) >= 1', 'self.parser_state.lexer is self.lexer_thread']
    reg.contract('lark.parsers.lalr_interactive_parser:InteractiveParser.copy', serves=S, kind='method',
                 params={'self': 'InteractiveParser', 'deepcopy_values': 'bool'}, returns='InteractiveParser',
                 ghost={'defaults': {'deepcopy_values': True}}, requires=PRE,
                 ensures=OWN + ['implies(deepcopy_values, %s)' % DEEP,
                                'implies(not deepcopy_values, seq(result.parser_state.value_stack) == seq(self.parser_state.value_stack))',
                                'result.parser == self.parser'],
                 names={'copy': ('builtin', 'copy')}, replay=_replay)
    reg.contract('lark.parsers.lalr_interactive_parser:InteractiveParser.__copy__', serves=S, kind='method',
                 params={'self': 'InteractiveParser'}, returns='InteractiveParser', requires=PRE, ensures=OWN + [DEEP], replay=_replay)
    reg.contract('lark.parsers.lalr_interactive_parser:InteractiveParser.as_immutable', serves=S, kind='method',
                 params={'self': 'InteractiveParser'}, returns='ImmutableInteractiveParser', requires=PRE, ensures=OWN + [DEEP],
                 names={'copy': ('builtin', 'copy'), 'ImmutableInteractiveParser': ('class', 'ImmutableInteractiveParser')}, replay=_replay)
    reg.contract('lark.parsers.lalr_interactive_parser:ImmutableInteractiveParser.as_mutable', serves=S, kind='method',
                 params={'self': 'ImmutableInteractiveParser'}, returns='InteractiveParser', requires=PRE, ensures=OWN + [DEEP],
                 names={'copy': ('builtin', 'copy'), 'InteractiveParser': ('class', 'InteractiveParser')}, replay=_replay)

    # ---- feeding: InteractiveParser.feed_token is the driver step of its own parser state (is_end iff the token is $END)
    ft = reg.contracts['lark.parsers.lalr_parser_state:ParserState.feed_token']

    def lift(s):
        return s.replace('self.', 'self.parser_state.').replace('is_end', "(token.type == '$END')")
    reg.contract('lark.parsers.lalr_interactive_parser:InteractiveParser.feed_token', serves=['C13', 'C08'], kind='method',
                 params={'self': 'InteractiveParser', 'token': 'Token'}, returns='any',
                 requires=[lift(r) for r in ft.requires],
                 modifies=[lift(m) for m in ft.modifies],
                 ensures=[lift(e) for e in ft.ensures] + ['self.parser_state is old(self.parser_state)'],
                 raises={'UnexpectedToken': [lift(e) for e in ft.raises['UnexpectedToken']]},
                 replay=_replay)

    # ImmutableInteractiveParser.feed_token: works on a deep copy; the receiver and everything it owns stay as they were
    IMM = [r.replace('self.', 'self.parser_state.').replace('is_end', "(token.type == '$END')") for r in ft.requires]
    reg.contract('lark.parsers.lalr_interactive_parser:ImmutableInteractiveParser.feed_token', serves=['C13'], kind='method',
                 params={'self': 'ImmutableInteractiveParser', 'token': 'Token'}, returns='InteractiveParser',
                 requires=PRE + IMM,
                 modifies=[],          # nothing that existed before the call is written
                 ensures=['fresh(result)', 'fresh(result.parser_state)', 'fresh(result.parser_state.state_stack)', 'fresh(result.parser_state.value_stack)',
                          'fresh(result.lexer_thread)', 'result.parser_state.lexer is result.lexer_thread',
                          'seq(self.parser_state.state_stack) == old(seq(self.parser_state.state_stack))',
                          'seq(self.parser_state.value_stack) == old(seq(self.parser_state.value_stack))'],
                 raises={'UnexpectedToken': ['seq(self.parser_state.state_stack) == old(seq(self.parser_state.state_stack))']},
                 names={'copy': ('builtin', 'copy'), 'InteractiveParser.feed_token': ('contract', 'lark.parsers.lalr_interactive_parser:InteractiveParser.feed_token')},
                 replay=_replay)

    # ---- accepts(): exactly the terminals of the current state whose trial feed succeeds (for every terminal but $END)
    T = 'self.parser_state.parse_conf.states'
    XS = 'seq(self.parser_state.state_stack)'
    END = 'self.parser_state.parse_conf.end_state'
    TOPS = 'self.parser_state.state_stack[len(self.parser_state.state_stack)-1]'

    def FEEDOK(k):
        # (for k != '$END' the token is not an end marker: is_end is False)
        # stated over the entry state (accepts() does not change the receiver)
        T0, XS0, END0 = 'old(%s)' % T, 'old(%s)' % XS, 'old(%s)' % END
        return ("HAS(%s, LRE(%s, %s, %s, False, %s, LRN(%s, %s, %s, False, %s) - 1), %s)" % (T0, T0, XS0, k, END0, T0, XS0, k, END0, k))
    reg.contract('lark.parsers.lalr_interactive_parser:InteractiveParser.choices', serves=['C13'], kind='method',
                 params={'self': 'InteractiveParser'}, returns='Row',
                 requires=['len(self.parser_state.state_stack) >= 1', 'KEY(%s, %s)' % (T, TOPS),
                           'self.parser_state.parse_conf.parse_table.states is self.parser_state.parse_conf.states'],
                 ensures=['result.table is %s' % T, 'result.state == %s' % TOPS])
    reg.specfun('ISTERM', [('name', 'str')], 'bool', doc='the symbol of that name is a terminal of the grammar')
    reg.contract('lark.parsers.lalr_interactive_parser:InteractiveParser.accepts', serves=['C13', 'C08', 'C10'], kind='method',
                 params={'self': 'InteractiveParser'}, returns='set[str]',
                 types={'@set105': 'set[str]'},
                 requires=PRE + ['len(self.parser_state.state_stack) == len(self.parser_state.value_stack) + 1',
                                 'all(KEY(%s, self.parser_state.state_stack[i]) for i in range(0, len(self.parser_state.state_stack)))' % T,
                                 'self.parser_state.parse_conf.parse_table.states is self.parser_state.parse_conf.states',
                                 # the table is well formed from this stack for every look-ahead (WF2-WF4)
                                 "all(VALID(%s, %s, k, ie, %s) for k in STR for ie in BOOL if trig(VALID(%s, %s, k, ie, %s)))" % (T, XS, END, T, XS, END)],
                 modifies=[],
                 ensures=['fresh(result)',
                          # every member is a terminal of the current state (belongs to choices(), hence to `expected`)
                          'all(implies(k in result, HAS(%s, %s, k) and k.isupper()) for k in STR)' % (T, TOPS),
                          # exactness, as the property states it: a TERMINAL is a member iff feeding a token of that type succeeds.  The code decides
                          # "is a terminal" by k.isupper(); a terminal whose name has no cased character (anonymous terminal for "中") is missed: F7
                          ("all(implies(k != '$END' and HAS(%s, %s, k) and ISTERM(k), iff(k in result, %s)) for k in STR)" % (T, TOPS, FEEDOK('k')),
                           'F7', 'all(ISTERM(k) == k.isupper() for k in STR)'),
                          'seq(self.parser_state.state_stack) == old(seq(self.parser_state.state_stack))'],
                 loops={0: dict(inv=[
                     'fresh(accepts)', 'fresh(conf_no_callbacks)', 'len(conf_no_callbacks.callbacks) == 0',
                     'conf_no_callbacks.states is %s' % T, 'conf_no_callbacks.end_state == %s' % END,
                     'self.parser_state is old(self.parser_state)', 'self.parser_state.state_stack is old(self.parser_state.state_stack)',
                     'self.parser_state.parse_conf is old(self.parser_state.parse_conf)', 'self.lexer_thread is old(self.lexer_thread)',
                     'self.parser_state.lexer is self.lexer_thread', 'self.parser_state.value_stack is old(self.parser_state.value_stack)',
                     'all(implies(k in accepts, any(_s0[j] == k for j in range(0, _i0))) for k in STR)',
                     "all(implies(_s0[j] != '$END' and _s0[j].isupper() and _s0[j] in accepts, %s) for j in range(0, _i0))" % FEEDOK('_s0[j]'),
                     "all(implies(_s0[j] != '$END' and _s0[j].isupper() and %s, _s0[j] in accepts) for j in range(0, _i0))" % FEEDOK('_s0[j]'),
                     'all(implies(k in accepts, k.isupper()) for k in STR)',
                 ])},
                 ghost={'Expr#2': ["implies(t != '$END', %s)" % FEEDOK('t')]},
                 names={'copy': ('builtin', 'copy'), 'UnexpectedToken': ('class', 'UnexpectedToken')},
                 replay=_replay)
