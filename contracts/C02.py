"""C02 - LALR(1): the driver executes the table (deductive kernel); the table itself is compared with a reference (bounded)."""
from pyvc.util import native_file
from . import lalrmodel

PROPERTY = 'C02'
TRUSTED = list(lalrmodel.TRUSTED)
ASSUMPTIONS = []


def register(reg):
    lalrmodel.register_lalr(reg, serves=['C02', 'C08', 'C13', 'C10'])
