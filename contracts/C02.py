"""C02 - LALR(1): the driver executes the table (deductive kernel); the table itself is compared with a reference (bounded)."""
from pyvc.util import native_file
from . import lalrmodel

PROPERTY = 'C02'
TRUSTED = list(lalrmodel.TRUSTED)
ASSUMPTIONS = ["that LALR_Analyzer builds the LALR(1) table of the grammar (compute_lr0_states, reads/includes/lookback, digraph, compute_lalr1_states) is NOT proved: bounded stand-in only",
               "WF(table) - goto defined, no terminal shift into the end state, no reduce cycle - is assumed by the driver contract and observed only on the enumerated family"]
BOUNDED = [dict(name='standin.lalr-table', function='lark.parsers.lalr_analysis:LALR_Analyzer.compute_lalr (whole table construction), digraph/traverse (closure operator), grammar_analysis.calculate_sets',
                code=native_file('bounded/c02_lalr.py'),
                bound={'quick': '200 random grammars (3 non-terminals, 2 terminals, rhs <= 3, nullable/recursive, rule priorities), the reduced ones compared with an independent canonical-LR(1)-merged reference on every terminal string of length <= 4: construction outcome, language, offending-token index, accepts() after every prefix, no foreign exception, no hang; 41 hand-made shapes (conflicts of both kinds, nullable unit chains of length 3 in 5 definition orders, mutually right-recursive nullable rules); digraph(X, R, G) against reachability for EVERY relation on <= 3 nodes and 6000 sampled relations on 4 nodes, successor lists in both orders',
                       'thorough': '1200 grammars, strings of length <= 5; digraph exhaustive on every relation on <= 4 nodes (65 536 x 2 orders)'},
                note='bounded stand-in for the table construction: never counted as proved; sampling seeded by VERIF_SEED')]


def register(reg):
    lalrmodel.register_lalr(reg, serves=['C02', 'C08', 'C13', 'C10', 'C16'])
