"""C02 - LALR(1): the driver executes the table (deductive kernel); the table itself is compared with a reference (bounded)."""
from pyvc.util import native_file
from . import lalrmodel

PROPERTY = 'C02'
TRUSTED = list(lalrmodel.TRUSTED)
ASSUMPTIONS = ["that LALR_Analyzer builds the LALR(1) table of the grammar (compute_lr0_states, reads/includes/lookback, digraph, compute_lalr1_states) is NOT proved: bounded stand-in only",
               "traverse(): only its alias frame is proved (no set handed in through G is written); key existence, its asserts, the stack discipline and that it computes the closure are bounded stand-in only",
               "WF(table) - goto defined, no terminal shift into the end state, no reduce cycle - is assumed by the driver contract and observed only on the enumerated family"]
BOUNDED = [dict(name='standin.lalr-table', function='lark.parsers.lalr_analysis:LALR_Analyzer.compute_lalr (whole table construction), digraph/traverse (closure operator), grammar_analysis.calculate_sets',
                code=native_file('bounded/c02_lalr.py'),
                bound={'quick': '200 random grammars (3 non-terminals, 2 terminals, rhs <= 3, nullable/recursive, rule priorities), the reduced ones compared with an independent canonical-LR(1)-merged reference on every terminal string of length <= 4: construction outcome, language, offending-token index, accepts() after every prefix, no foreign exception, no hang; 53 hand-made shapes (conflicts of both kinds, nullable unit chains of length 3 in 5 definition orders, mutually right-recursive nullable rules, indirect left recursion, reads-cycles with priorities); digraph composed with itself (the result of one pass is the set function of the next) on every pair of relations on <= 2 nodes and 8000 sampled pairs on 3 nodes; digraph(X, R, G) against reachability for EVERY relation on <= 3 nodes and 6000 sampled relations on 4 nodes, successor lists in both orders',
                       'thorough': '1200 grammars, strings of length <= 5; digraph exhaustive on every relation on <= 4 nodes (65 536 x 2 orders), composed on every pair of relations on 3 nodes (262 144)'},
                note='bounded stand-in for the table construction: never counted as proved; sampling seeded by VERIF_SEED')]


def register(reg):
    lalrmodel.register_lalr(reg, serves=['C02', 'C08', 'C13', 'C10', 'C16'])

    # ---- the closure operator of the look-ahead computation: ALIAS FRAME only (its functional correctness is the bounded stand-in's)
    # traverse() writes the work stack, the weights, the result map and set objects it allocated itself - never a set it was handed in
    # G: the second pass of compute_lookaheads receives the first pass's result, in which the nodes of a cycle share one set (F48)
    E1 = 'all(implies(k in F, fresh(F[k]) or (k in old(dom(F)) and F[k] is old(content(F))[k])) for k in ANYV)'
    ALIAS = 'all(implies(k in R, R[k] is not S) for k in ANYV)'
    P = {'x': 'any', 'S': 'list[any]', 'N': 'dict[any,int]', 'X': 'any', 'R': 'dict[any,list[any]]', 'G': 'dict[any,set[any]]', 'F': 'dict[any,set[any]]'}
    reg.contract('lark.parsers.lalr_analysis:traverse', serves=['C02'], params=P, returns='none',
                 requires=['G is not F', 'N is not F', 'R is not F', 'R is not N', 'G is not N', ALIAS],
                 modifies=['S', 'N', 'F'],
                 # every set in the result map is one this call (or a nested call) allocated, or the one that was there before
                 ensures=[E1],
                 # not decided here (bounded stand-in): that the keys exist, the asserts hold and the stack is never popped empty
                 raises={'KeyError': [], 'AssertionError': [], 'IndexError': []},
                 loops={0: dict(inv=['x in F', 'fresh(F[x])', E1, ALIAS, 'x in R', 'R[x] is not S']),
                        1: dict(inv=['fresh(f_x)', E1])},
                 names={'traverse': ('contract', 'lark.parsers.lalr_analysis:traverse')})

