"""LALR driver model shared by C02 / C08 / C13: abstract view of the parse table, the LR step function as recursive
spec functions over the state stack, and the contract of ParserState.feed_token against them.

Abstract table (pure functions of the `states` dict object T):
  KEY(T, s)          s is a state of the table
  HAS(T, s, k)       state s has an entry for symbol k
  ISSHIFT(T, s, k)   that entry is a Shift
  TARGET(T, s, k)    its target state            RSIZE/RLHS(T, s, k)  length / left-hand side of its Reduce rule
The precondition VIEW ties the heap representation (dict of dict of (action, arg) tuples) to these functions; the table is
never written (frame), so the tie holds throughout.

LR semantics (the property statement in formal dress; definitional):
  LRN(T, xs, k, ie, end)     length of the state stack after the default reductions on look-ahead k from stack xs
  LRE(T, xs, k, ie, end, i)  element i of that stack
  VALID(T, xs, k, ie, end)   every step on the way is well defined (goto present and a Shift, never into end_state from a
                             terminal, no Shift on $END) and strictly decreases RK  -- i.e. WF2/WF3/WF4 of DESIGN.md for this stack
"""
import z3
from pyvc.ty import SV, ANY, AnyS
from pyvc.util import native_file

TRUSTED = [
    "LR driver semantics LRN/LRE/VALID (contracts/lalrmodel.py): taken from the textbook shift/reduce step, not from the code",
    "WF(table): VALID holds for every stack reachable from the start state of a table built by LALR_Analyzer (checked only by the bounded stand-in bounded/c02_lalr.py)",
    "parser callbacks (tree builders / user transformers) do not touch the parser state, the table or the lexer, and do not raise",
]

SHIFT = SV(ANY, z3.Const('Shift!obj', AnyS))

T, XS, K, IE, END = 'T', 'xs', 'k', 'ie', 'end'
TOP = 'xs[len(xs)-1]'
CANRED = '(len(xs) >= 1 and HAS(T, %s, k) and not ISSHIFT(T, %s, k))' % (TOP, TOP)
SZ = 'RSIZE(T, %s, k)' % TOP
BELOW = 'xs[len(xs)-%s-1]' % SZ
GOTO = 'TARGET(T, %s, RLHS(T, %s, k))' % (BELOW, TOP)
NXT = 'upd(prefix(xs, len(xs)-%s+1), len(xs)-%s, %s)' % (SZ, SZ, GOTO)
STEPOK = ('(%s >= 0 and len(xs) - %s >= 1 and KEY(T, %s) and HAS(T, %s, RLHS(T, %s, k)) and ISSHIFT(T, %s, RLHS(T, %s, k)) '
          'and KEY(T, %s) and RK(T, %s, k, ie, end) < RK(T, xs, k, ie, end) and RK(T, xs, k, ie, end) >= 0)'
          % (SZ, SZ, BELOW, BELOW, TOP, BELOW, TOP, GOTO, NXT))
FINALOK = ('(implies(len(xs) >= 1 and HAS(T, %s, k) and ISSHIFT(T, %s, k), TARGET(T, %s, k) != end and not ie and KEY(T, TARGET(T, %s, k))))'
           % (TOP, TOP, TOP, TOP))


def register_lalr(reg, serves):
    TT = 'StatesTable'
    reg.cls('NonTerminal', target='lark.grammar:NonTerminal', consts={'name': 'str'})
    reg.cls('Rule', target='lark.grammar:Rule', consts={'expansion': 'sized', 'origin': 'NonTerminal'})
    # whatever the callbacks build (trees, tokens, user values): objects whose state the callbacks of later reductions may change in place
    # (ChildFilterLALR re-uses the child list of its first child)
    reg.cls('Value', fields={'content': 'any'})
    reg.cls('Token', target='lark.lexer:Token', bases=['Value'], consts={'type': 'str'})     # parser callbacks do not retype tokens
    reg.cls('LexerThread', target='lark.lexer:LexerThread', fields={'lexer': 'any', 'state': 'opt[LexerState]'})
    reg.cls('LexerState', target='lark.lexer:LexerState', fields={'text': 'any', 'line_ctr': 'LineCounter', 'last_token': 'opt[Token]'})
    reg.cls('LineCounter', target='lark.lexer:LineCounter',
            fields={'char_pos': 'int', 'line': 'int', 'column': 'int', 'line_start_pos': 'int', 'newline_char': 'any'})
    # the action table: dict[state, dict[symbol, (action, arg)]], built once by LALR_Analyzer / deserialisation and never written afterwards.
    # It is modelled as an immutable object whose look-ups are given by the abstract view functions (assumed dict semantics);
    # any write to it in verified code would leave the subset (no mutator is declared).
    reg.cls('StatesTable')
    reg.cls('Row', consts={'table': 'StatesTable', 'state': 'int'})
    reg.cls('ParseConf', target='lark.parsers.lalr_parser_state:ParseConf',
            fields={'parse_table': 'any', 'callbacks': 'dict[any,any]', 'start': 'str', 'start_state': 'int', 'end_state': 'int', 'states': TT})
    reg.cls('ParserState', target='lark.parsers.lalr_parser_state:ParserState',
            fields={'parse_conf': 'ParseConf', 'lexer': 'opt[LexerThread]', 'state_stack': 'list[int]', 'value_stack': 'list[Value]'})
    for e, b in (('LarkError', ['Exception']), ('ParseError', ['LarkError']), ('UnexpectedInput', ['LarkError']),
                 ('UnexpectedToken', ['ParseError', 'UnexpectedInput'])):
        reg.cls(e, exception=True, bases=b,
                fields={'token': 'Token', 'expected': 'set[str]', 'state': 'any', 'interactive_parser': 'any'} if e == 'UnexpectedToken' else None)

    S5 = [('T', TT), ('xs', 'seq[int]'), ('k', 'str'), ('ie', 'bool'), ('end', 'int')]
    reg.specfun('KEY', [('T', TT), ('s', 'int')], 'bool')
    for f, r in (('HAS', 'bool'), ('ISSHIFT', 'bool'), ('TARGET', 'int'), ('RSIZE', 'int'), ('RLHS', 'str'), ('ARG', 'any')):
        reg.specfun(f, [('T', TT), ('s', 'int'), ('k', 'str')], r)
    reg.specfun('RK', S5, 'int', doc='ranking function of the reduce relation (exists iff the table has no reduce cycle: WF4)')
    reg.specfun('LRN', S5, 'int',
                body='(len(%s) if (ie and %s[len(%s)-1] == end) else LRN(T, %s, k, ie, end)) if %s else len(xs)' % (NXT, NXT, NXT, NXT, CANRED))
    reg.specfun('LRE', S5 + [('i', 'int')], 'int',
                body='(%s[i] if (ie and %s[len(%s)-1] == end) else LRE(T, %s, k, ie, end, i)) if %s else xs[i]' % (NXT, NXT, NXT, NXT, CANRED))
    reg.specfun('VALID', S5, 'bool',
                body='(%s and ((ie and %s[len(%s)-1] == end) or VALID(T, %s, k, ie, end))) if %s else %s' % (STEPOK, NXT, NXT, NXT, CANRED, FINALOK))
    for f in ('LRN', 'LRE', 'VALID'):
        reg.specfuns[f].prefix = False

    reg.axioms.append(('raw', 'any.disjoint', _any_disjoint))

    # dict semantics of the table over the abstract view (assumed)
    reg.contract('StatesTable.__getitem__', assumed=True, kind='method', pure=False,
                 params={'self': 'StatesTable', 's': 'int'}, returns='Row',
                 raises={'KeyError': ['not KEY(self, s)']},
                 ensures=['KEY(self, s)', 'result.table is self', 'result.state == s'])
    reg.contract('StatesTable.__contains__', assumed=True, kind='method', pure=True,
                 params={'self': 'StatesTable', 's': 'int'}, returns='bool', ensures=['result == KEY(self, s)'])
    reg.contract('Row.__getitem__', assumed=True, kind='method', pure=False,
                 params={'self': 'Row', 'k': 'str'}, returns='tuple[any,any]',
                 raises={'KeyError': ['not HAS(self.table, self.state, k)']},
                 ensures=['HAS(self.table, self.state, k)', '(result[0] is Shift) == ISSHIFT(self.table, self.state, k)',
                          'result[1] == ARG(self.table, self.state, k)',
                          'implies(ISSHIFT(self.table, self.state, k), result[1] == TARGET(self.table, self.state, k) and cast(result[1], int) == TARGET(self.table, self.state, k))',
                          'implies(not ISSHIFT(self.table, self.state, k), isinstance(result[1], Rule) and len(cast(result[1], Rule).expansion) == RSIZE(self.table, self.state, k) '
                          'and cast(result[1], Rule).origin.name == RLHS(self.table, self.state, k))'],
                 names={'Shift': ('sv', SHIFT)})
    reg.contract('Row.keys', assumed=True, kind='method', pure=False, params={'self': 'Row'}, returns='set[str]',
                 ensures=['fresh(result)', 'all(iff(k in result, HAS(self.table, self.state, k)) for k in STR)'])
    reg.contract('UnexpectedToken.__init__', assumed=True, kind='method',
                 params={'self': 'UnexpectedToken', 'token': 'Token', 'expected': 'set[str]', 'state': 'any', 'interactive_parser': 'any'},
                 modifies=['self'], ghost={'defaults': {'interactive_parser': None, 'state': None}},
                 ensures=['self.token is token', 'self.expected is expected'])

    ST = 'self.parse_conf.states'
    ARGS = '%s, seq(self.state_stack), token.type, is_end, self.parse_conf.end_state' % ST
    OLD = 'old(self.parse_conf.states), old(seq(self.state_stack)), token.type, is_end, old(self.parse_conf.end_state)'
    N0 = 'LRN(%s)' % OLD
    SHAPE = ['len(self.state_stack) >= 1', 'len(self.state_stack) == len(self.value_stack) + 1',
             'all(KEY(%s, self.state_stack[i]) for i in range(0, len(self.state_stack)))' % ST]
    # every rule the table can reduce by has a tree-building callback (ParseTreeBuilder.create_callback creates one per rule), unless callbacks is empty
    CBOK = ('all(implies(HAS(%s, s, k) and not ISSHIFT(%s, s, k) and len(self.parse_conf.callbacks) > 0, ARG(%s, s, k) in self.parse_conf.callbacks) '
            'for s in INT for k in STR if trig(ARG(%s, s, k)))' % (ST, ST, ST, ST))
    reg.contract('lark.parsers.lalr_parser_state:ParserState.feed_token', serves=serves, kind='method',
                 params={'self': 'ParserState', 'token': 'Token', 'is_end': 'bool'}, returns='any',
                 ghost={'defaults': {'is_end': False},
                        'Delete#0': ['all(implies(len(callbacks) > 0, fresh(s[j]) or any(old(seq(self.value_stack))[i] is s[j] '
                                     'for i in range(0, len(old(seq(self.value_stack)))))) for j in range(0, len(s)))'],
                        'callv:callbacks[token.type]#0': dict(returns='any'),
                        # a rule callback may change its children in place (and returns anything)
                        # and returns a new object or one of its children
                        'callv:callbacks[rule]#0': dict(returns='any', modifies_elements=[0], assumes=[
                            'fresh(cast(result, Value)) or any(arg0[i] is cast(result, Value) for i in range(0, len(arg0)))'])},
                 types={'any.expansion': 'Rule', 'any.origin': 'Rule', 's': 'list[Value]'},
                 requires=SHAPE + [CBOK, 'VALID(%s)' % ARGS],
                 modifies=['self.state_stack', 'self.value_stack', 'elements_if(len(self.parse_conf.callbacks) > 0, self.value_stack)'],
                 ensures=[
                     'len(self.state_stack) == len(self.value_stack) + 1',
                     'all(KEY(%s, self.state_stack[i]) for i in range(0, len(self.state_stack)))' % ST,
                     # the state stack is the LR step of the table: default reductions, then the shift (or acceptance at end of input)
                     'len(self.state_stack) == %s or len(self.state_stack) == %s + 1' % (N0, N0),
                     'all(self.state_stack[i] == LRE(%s, i) for i in range(0, %s))' % (OLD, N0),
                     'implies(len(self.state_stack) == %s + 1, not is_end and HAS(%s, LRE(%s, %s - 1), token.type) and ISSHIFT(%s, LRE(%s, %s - 1), token.type) '
                     'and self.state_stack[%s] == TARGET(%s, LRE(%s, %s - 1), token.type))' % (N0, ST, OLD, N0, ST, OLD, N0, N0, ST, OLD, N0),
                     'implies(len(self.state_stack) == %s, is_end and self.state_stack[%s - 1] == self.parse_conf.end_state)' % (N0, N0),
                 ],
                 raises={'UnexpectedToken': [
                     # raised exactly when the reduced stack has no action on the token; nothing of the token has been shifted
                     'len(self.state_stack) == %s' % N0, 'len(self.state_stack) == len(self.value_stack) + 1',
                     'all(self.state_stack[i] == LRE(%s, i) for i in range(0, %s))' % (OLD, N0),
                     'not HAS(%s, LRE(%s, %s - 1), token.type)' % (ST, OLD, N0),
                     'exc.token is token',
                     # expected = the terminal keys of the state on top after the default reductions
                     'all(iff(k in exc.expected, HAS(%s, self.state_stack[len(self.state_stack)-1], k) and k.isupper()) for k in STR)' % ST]},
                 loops={0: dict(inv=SHAPE + [
                     'state_stack is self.state_stack', 'value_stack is self.value_stack', 'states is self.parse_conf.states',
                     'end_state == self.parse_conf.end_state', 'callbacks is self.parse_conf.callbacks',
                     # every value on the stack is owned: created during this call or on the stack at entry
                     'all(implies(len(self.parse_conf.callbacks) > 0, fresh(self.value_stack[i]) or any(old(seq(self.value_stack))[j] is self.value_stack[i] '
                     'for j in range(0, len(old(seq(self.value_stack))))) ) for i in range(0, len(self.value_stack)))',
                     'VALID(%s)' % ARGS, 'LRN(%s) == %s' % (ARGS, N0),
                     'all(LRE(%s, i) == LRE(%s, i) for i in INT)' % (ARGS, OLD)],
                     decreases='RK(%s)' % ARGS)},
                 names={'Shift': ('sv', SHIFT), 'UnexpectedToken': ('class', 'UnexpectedToken')},
                 replay=lambda model: native_file('bounded/c13_interactive.py'))


def _any_disjoint(ev):
    i = z3.Int('i!ad')
    from pyvc.ty import Ref
    r = z3.Const('r!ad', Ref)
    ai = z3.Function('any_of_Int', z3.IntSort(), AnyS)
    ar = z3.Function('any_of_Ref', Ref, AnyS)
    oi = z3.Function('of_any_Int', AnyS, z3.IntSort())
    orf = z3.Function('of_any_Ref', AnyS, Ref)
    x = z3.Const('x!ad', AnyS)
    isrule = z3.Function('any_is_Rule', AnyS, z3.BoolSort())
    return [z3.ForAll([x], z3.Implies(isrule(x), x == ar(orf(x))), patterns=[isrule(x)]),
            z3.ForAll([i, r], ai(i) != ar(r), patterns=[z3.MultiPattern(ai(i), ar(r))]),
            z3.ForAll([i], ai(i) != SHIFT.z, patterns=[ai(i)]),
            z3.ForAll([i], oi(ai(i)) == i, patterns=[ai(i)]),
            z3.ForAll([r], orf(ar(r)) == r, patterns=[ar(r)])]
