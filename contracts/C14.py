"""C14 - scan() yields leftmost-longest non-overlapping matches consistent with parse().

Deductive part (re-used kernels, UNITS): the line-count resumption for mid-text parses (LineCounter.from_text_slice with a
_TextSlice_WithLineCount snapshot, advance_to - C06) and the start search (Scanner.search: earliest start over all chunks, inside
the window - C07), and two regions of ParsingFrontend._scan: the window handed to each candidate parse carries the line state of its
start offset (which discharges the precondition C06 assumes about such windows), and after a start that led to no match the search
resumes at the very next offset.  The candidate loop as a whole (generator over a live lexer/parser pair with nested exception
handling) is a BOUNDED stand-in: exhaustive comparison with brute-force leftmost-longest substring parsing.
"""
from pyvc.util import native_file

PROPERTY = 'C14'
UNITS = ['C14', 'C06', 'C07', 'C10']
TRUSTED = []
ASSUMPTIONS = ["ParsingFrontend._scan: only two regions are under contract (snapshot, resume); longest-match selection and replay are covered by the bounded stand-in only (never counted as proved)",
               "'no skipped position starts a snippet that parses' fails for the basic lexer because candidates are lexed with maximal munch over the whole remaining window (known finding F18)"]
BOUNDED = [dict(name='standin.scan', function='lark.parser_frontends:ParsingFrontend._scan (through Lark.scan)',
                code=native_file('bounded/c14_scan.py'),
                bound={'quick': '4 grammars x basic/contextual x all texts of length <= 5 over the grammar alphabet: ranges, values and token coordinates vs brute-force leftmost-longest substring parsing',
                       'thorough': 'texts of length <= 7'},
                note='bounded stand-in for _scan; exhaustive within the bound')]


def _replay(model):
    return native_file('bounded/c14_scan.py')


def _snapshot_region(fn):
    import ast
    for n in ast.walk(fn):
        if isinstance(n, ast.While):
            out = [s for s in n.body if (isinstance(s, ast.Expr) and 'line_ctr.advance_to' in ast.unparse(s)) or
                   (isinstance(s, ast.Assign) and '_TextSlice_WithLineCount' in ast.unparse(s.value))]
            if len(out) == 2 and n.body.index(out[1]) == n.body.index(out[0]) + 1:
                return out
    return None


def _resume_region(fn):
    import ast
    for n in ast.walk(fn):
        if isinstance(n, ast.If) and ast.unparse(n.test) == 'longest_match' and n.orelse:
            return n.orelse
    return None


def register(reg):
    """two regions of the candidate loop ParsingFrontend._scan (the loop as a whole stays a bounded stand-in)"""
    from contracts import textmodel
    textmodel.register_text(reg)
    textmodel.register_linecounter(reg, serves=[])
    d = dict(t='text_slice.text', p='match_start')
    reg.contract('lark.lexer:_TextSlice_WithLineCount.__init__', assumed=True, kind='method', modifies=['self'],
                 params={'self': '_TextSlice_WithLineCount', 'text': 'text', 'start': 'int', 'end': 'int', 'line': 'int', 'line_start_pos': 'int'},
                 ensures=['self.text == text', 'self.start == start', 'self.end == end', 'self.line == line', 'self.line_start_pos == line_start_pos'])
    # the window handed to each candidate parse carries the line state OF ITS START OFFSET: this discharges the precondition that
    # LineCounter.from_text_slice (C06) assumes about a _TextSlice_WithLineCount
    reg.contract('lark.parser_frontends:ParsingFrontend._scan#snapshot', serves=['C14'], region=_snapshot_region,
                 params={'text_slice': 'TextSlice', 'line_ctr': 'LineCounter', 'match_start': 'int'}, modifies=['line_ctr'],
                 requires=textmodel.INV('line_ctr', 'text_slice.text') + ['line_ctr.char_pos <= match_start', 'match_start <= text_slice.end', 'text_slice.end <= len(text_slice.text)'],
                 ghost={'ensures_fall': textmodel.INV('line_ctr', 'text_slice.text') + [
                     'text_slice_wlc.text == text_slice.text', 'text_slice_wlc.start == match_start', 'text_slice_wlc.end == text_slice.end',
                     'text_slice_wlc.line == %s' % (textmodel.LINE % d), 'text_slice_wlc.line_start_pos == %s' % (textmodel.LSP % d)]},
                 names={'_TextSlice_WithLineCount': ('class', '_TextSlice_WithLineCount')}, replay=_replay)
    # after a start that led to no match, the search resumes at the very next offset: no possible start is skipped
    reg.contract('lark.parser_frontends:ParsingFrontend._scan#resume', serves=['C14'], region=_resume_region,
                 params={'match_start': 'int', 'matched_tokens': 'list[any]'},
                 ghost={'ensures_fall': ['pos == match_start + 1']}, replay=_replay)
