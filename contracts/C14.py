"""C14 - scan() yields leftmost-longest non-overlapping matches consistent with parse().

Deductive part (re-used kernels, UNITS): the line-count resumption for mid-text parses (LineCounter.from_text_slice with a
_TextSlice_WithLineCount snapshot, advance_to - C06) and the start search (Scanner.search: earliest start over all chunks, inside
the window - C07).  The candidate loop ParsingFrontend._scan itself (generator over a live lexer/parser pair with nested exception
handling) is a BOUNDED stand-in: exhaustive comparison with brute-force leftmost-longest substring parsing.
"""
from pyvc.util import native_file

PROPERTY = 'C14'
UNITS = ['C06', 'C07']
TRUSTED = []
ASSUMPTIONS = ["ParsingFrontend._scan is not under contract: bounded stand-in only (never counted as proved)",
               "'no skipped position starts a snippet that parses' fails for the basic lexer because candidates are lexed with maximal munch over the whole remaining window (known finding F18)"]
BOUNDED = [dict(name='standin.scan', function='lark.parser_frontends:ParsingFrontend._scan (through Lark.scan)',
                code=native_file('bounded/c14_scan.py'),
                bound={'quick': '4 grammars x basic/contextual x all texts of length <= 5 over the grammar alphabet: ranges, values and token coordinates vs brute-force leftmost-longest substring parsing',
                       'thorough': 'texts of length <= 7'},
                note='bounded stand-in for _scan; exhaustive within the bound')]


def register(reg):
    pass
