"""C12 - the grammar cache is only an optimisation.

Three kernels, two of them statement regions of Lark.__init__ (selected structurally from the real AST on every run):
  key region     the cache key is ENC(grammar, join of repr((k, str(v))) over every option except exactly the five unhashable ones,
                 version, python version) - so no option set is dropped from the key; injectivity of the encoding is the assumed
                 contract of repr() (cross-checked natively)
  load region    no exception of class Exception escapes the cache-load attempt, a hit requires header hash == key and verify_used_files,
                 and on every non-hit path self.options and self.source_path are what they were
  verify_used_files   True only if every recorded file that can be re-read hashes to its recorded value
"""
import ast
import z3
from pyvc.ty import SV, STR, ANY, AnyS
from pyvc.util import native_file

PROPERTY = 'C12'
TRUSTED = [
    "repr() of a tuple/str is an injective, self-delimiting encoding (a Python literal): concatenations of reprs of pairs decode uniquely (bounded cross-check bounded/c12_cache.py)",
    "sha256 modelled as an uninterpreted function SHA (collision-freeness assumed)",
    "pickle.load / Lark._load may raise any Exception subclass (assumed contract; truncation at every byte offset cross-checked natively); file objects: readline/read do not raise",
]
ASSUMPTIONS = [
    "writing the cache file does not fail (on IOError lark logs the error and continues without a cache: not modelled)",
    "MemoryError / RecursionError / KeyboardInterrupt are not modelled (a corrupted pickle length field can raise MemoryError: outside `except Exception` only for BaseException)",
    "the digest line protects the body against damage, not against a deliberate rewrite of both (the cache is not an authentication mechanism)",
    "a recorded file that can no longer be read is ignored by verify_used_files (as the code documents)",
]

BOUNDED = [dict(name='crosscheck.cache', function='Lark.__init__ cache path: every truncation offset, header/key changes, option changes, imported-file changes',
                code=native_file('bounded/c12_cache.py'),
                bound={'quick': '3 grammars; cache file truncated at every byte offset; 6 option variations; changed/unchanged imported file',
                       'thorough': 'same plus single-byte corruption at every offset of the header and used-files section'},
                note='cross-check of the assumed external contracts (pickle) and of the executable contract; not counted as obligations')]


def _replay(model):
    return native_file('bounded/c12_cache.py')


def _find_cache_if(fn):
    for n in ast.walk(fn):
        if isinstance(n, ast.If) and ast.unparse(n.test) == 'self.options.cache':
            return n
    return None


def key_region(fn):
    n = _find_cache_if(fn)
    if n is None:
        return None
    out, on = [], False
    for s in n.body:
        if isinstance(s, ast.Assign) and isinstance(s.targets[0], ast.Name) and s.targets[0].id == 'unhashable':
            on = True
        if on:
            out.append(s)
        if isinstance(s, ast.Assign) and isinstance(s.targets[0], ast.Name) and s.targets[0].id == 'cache_sha256':
            return out
    return None


def load_region(fn):
    n = _find_cache_if(fn)
    if n is None:
        return None
    for i, s in enumerate(n.body):
        if isinstance(s, ast.Try) and 'pickle.load' in ast.unparse(s):
            j = i
            while j > 0 and isinstance(n.body[j - 1], ast.Assign) and ast.unparse(n.body[j - 1].targets[0]).startswith('old_'):
                j -= 1
            return n.body[j:i + 1]
    return None


def save_region(fn):
    for n in ast.walk(fn):
        # the statements guarded by exactly `if cache_fn:` (any other guard: the selector is lost and the check falls back to the native search)
        if isinstance(n, ast.If) and ast.unparse(n.test) == 'cache_fn' and 'pickle.dump' in ast.unparse(n) and not n.orelse:
            return n.body
    return None


UNH = "('transformer', 'postlex', 'lexer_callbacks', 'edit_terminals', '_plugins')"


def register(reg):
    VERSION = SV(STR, z3.String('lark.__version__'))
    PYVER = SV(ANY, z3.Const('sys.version_info[:2]', AnyS))

    # ---- key region
    reg.cls('OptDict')      # the keyword options as passed by the caller: an ordered mapping name -> value
    reg.specfun('NITEMS', [('d', 'OptDict')], 'int')
    reg.specfun('ITEMK', [('d', 'OptDict'), ('i', 'int')], 'str')
    reg.specfun('ITEMV', [('d', 'OptDict'), ('i', 'int')], 'any')
    reg.specfun('SHA', [('s', 'str')], 'str')
    reg.contract('OptDict.items', assumed=True, kind='method', pure=True, params={'self': 'OptDict'}, returns='seq[tuple[str,any]]',
                 ensures=['len(result) == NITEMS(self)', 'NITEMS(self) >= 0',
                          'all(result[i][0] == ITEMK(self, i) and result[i][1] == ITEMV(self, i) for i in range(0, len(result)))'])
    reg.contract('lark.utils:sha256_digest', assumed=True, pure=True, params={'s': 'str'}, returns='str', ensures=['result == SHA(s)'])
    # the join of the option encodings after the first n items: every option contributes repr((name, str(value))) unless it is one of
    # exactly the five that cannot be hashed (they do not change how the grammar is loaded) - from the property: "different options"
    reg.specfun('OPTSTR', [('d', 'OptDict'), ('n', 'int')], 'str',
                body="'' if n <= 0 else OPTSTR(d, n - 1) + ('' if ITEMK(d, n - 1) in %s else repr((ITEMK(d, n - 1), str(ITEMV(d, n - 1)))))" % UNH)
    reg.cls('LarkK', fields={'source_path': 'any'})
    reg.contract('lark.lark:Lark.__init__#key', serves=['C12', 'C11'], region=key_region,
                 params={'grammar': 'str', 'options': 'OptDict', 'self': 'LarkK'},
                 ensures=[], ghost={
                     'ensures_fall': ['options_str == OPTSTR(options, NITEMS(options))',
                                      # ... together with the grammar text and the path relative imports are resolved from (F44)
                                      's == repr((grammar, self.source_path, OPTSTR(options, NITEMS(options)), VERSION, PYVER))',
                                      'cache_sha256 == SHA(s)'],
                     'join:\'\'.join#0': 'OPTSTR(options, _i)'},
                 names={'__version__': ('sv', VERSION), 'expr:sys.version_info[:2]': ('sv', PYVER),
                        'VERSION': ('sv', VERSION), 'PYVER': ('sv', PYVER),
                        'sha256_digest': ('contract', 'lark.utils:sha256_digest')},
                 replay=_replay)

    # ---- verify_used_files
    reg.specfun('TEXTOF', [('path', 'any')], 'opt[str]', doc='current content of a recorded grammar file, None if it cannot be re-read')
    reg.cls('File')
    # only paths (str) and package resources can be re-read; the two kinds are disjoint
    reg.axiom('textof.kinds', [('p', 'any')], 'implies(TEXTOF(p) is not None, isinstance(p, str) or isinstance(p, PackageResource)) and not (isinstance(p, str) and isinstance(p, PackageResource))', ['TEXTOF(p)'])
    reg.contract('os.path.exists', assumed=True, pure=True, params={'path': 'any'}, returns='bool',
                 ensures=['implies(isinstance(path, str), result == (TEXTOF(path) is not None))'])
    reg.contract('open', assumed=True, params={'path': 'any', 'encoding': 'str'}, returns='File',
                 requires=['TEXTOF(path) is not None'], ensures=['fresh(result)', 'FILETEXT(result) == val(TEXTOF(path))'])
    reg.specfun('FILETEXT', [('f', 'File')], 'str')
    reg.contract('File.read', assumed=True, kind='method', pure=True, params={'self': 'File'}, returns='str', ensures=['result == FILETEXT(self)'])
    reg.contract('pkgutil.get_data.decode', assumed=True, params={'path': 'any'}, ghost_params=['path'], returns='str',
                 raises={'IOError': ['TEXTOF(path) is None']},
                 ensures=['TEXTOF(path) is not None', 'result == val(TEXTOF(path))'])
    reg.contract('lark.load_grammar:verify_used_files', serves=['C12', 'C11'],
                 params={'file_hashes': 'dict[any,str]'}, returns='bool',
                 types={'text': 'opt[str]'},
                 ensures=[
                     # True only if every recorded file that can be re-read still has its recorded hash
                     'implies(result, all(implies(TEXTOF(p) is not None, h == SHA(val(TEXTOF(p)))) for p, h in file_hashes.items()))',
                     # False only if some re-readable file differs
                     'implies(not result, any(TEXTOF(p) is not None and h != SHA(val(TEXTOF(p))) for p, h in file_hashes.items()))'],
                 loops={0: dict(inv=['all(implies(TEXTOF(_s0[j][0]) is not None, _s0[j][1] == SHA(val(TEXTOF(_s0[j][0])))) for j in range(0, _i0))'])},
                 names={'os.path.exists': ('contract', 'os.path.exists'), 'open': ('contract', 'open'),
                        "expr:pkgutil.get_data(*path).decode('utf-8')": ('contract', 'pkgutil.get_data.decode'),
                        'sha256_digest': ('contract', 'lark.utils:sha256_digest'), 'PackageResource': ('class', 'PackageResource')},
                 replay=_replay)
    reg.cls('PackageResource')

    # ---- cache-load region
    reg.cls('Lark', target='lark.lark:Lark', fields={'options': 'any', 'source_path': 'any'})
    reg.cls('CacheFile')
    reg.contract('FS.open', assumed=True, params={'name': 'str', 'mode': 'str'}, returns='CacheFile',
                 raises={'FileNotFoundError': [], 'OSError': []}, ensures=['fresh(result)'])
    reg.contract('CacheFile.readline', assumed=True, kind='method', params={'self': 'CacheFile'}, returns='str')
    reg.contract('CacheFile.read', assumed=True, kind='method', params={'self': 'CacheFile'}, returns='str')
    reg.contract('BytesIO', assumed=True, params={'data': 'str'}, returns='CacheFile', ensures=['fresh(result)', 'CONTENT(result) == data'])
    reg.specfun('CONTENT', [('f', 'CacheFile')], 'str', doc='the bytes an in-memory file was created from')
    reg.contract('pickle.load', assumed=True, params={'f': 'CacheFile'}, returns='any',
                 raises={'Exception': []})            # truncated / corrupted streams: any Exception subclass
    reg.contract('verify_used_files/any', assumed=True, params={'file_hashes': 'any'}, returns='bool', raises={'Exception': []},
                 ensures=['result == USEDOK(file_hashes)'])
    reg.specfun('USEDOK', [('h', 'any')], 'bool')
    reg.contract('lark.lark:Lark._load', assumed=True, kind='method', params={'self': 'Lark', 'f': 'any', 'kwargs': 'dict[str,any]'},
                 returns='Lark', modifies=['self'], raises={'Exception': []})      # may fail half-way, having overwritten attributes of self
    reg.contract('lark.lark:Lark.__init__#load', serves=['C12', 'C11'], region=load_region,
                 params={'self': 'Lark', 'options': 'dict[str,any]', 'cache_fn': 'str', 'cache_sha256': 'str', '_LOAD_ALLOWED_OPTIONS': 'set[str]'},
                 modifies=['self', 'options'],
                 # `return` inside the region = cache hit: only with a matching header and unchanged used files
                 ensures=["file_sha256 == cache_sha256.encode('utf8')", 'USEDOK(cached_used_files)',
                          # ... and with a body that still has the digest recorded for it when the file was written (a damaged body is never unpickled into a parser)
                          "body_sha256 == SHA(body.decode('latin-1')).encode('utf8')", 'CONTENT(body_f) == body'],
                 ghost={'ensures_fall': ['self.options == old(self.options)', 'self.source_path == old(self.source_path)'],
                        'defaults': {}},
                 raises={},                      # nothing escapes: a stale or damaged file falls back to a rebuild
                 loops={0: dict(inv=['self.options == old(self.options)', 'self.source_path == old(self.source_path)',
                                     'all(implies(j >= _i0 and j < len(_s0), _s0[j] in options) for j in INT)'])},
                 names={'FS.open': ('contract', 'FS.open'), 'pickle.load': ('contract', 'pickle.load'), 'BytesIO': ('contract', 'BytesIO'),
                        'sha256_digest': ('contract', 'lark.utils:sha256_digest'), 'verify_used_files': ('contract', 'verify_used_files/any')},
                 replay=_replay)


    # ---- cache-save region: whenever a cache file name is in force and the load attempt did not return, the file is (re)written, and what
    # is written is a valid entry for this key: key line, digest of the rest, the rest (so the next build is a clean hit; a stale or damaged
    # file is replaced)
    reg.cls('OutFile', fields={'content': 'str'})
    reg.contract('FS.open/wb', assumed=True, params={'name': 'str', 'mode': 'str'}, returns='OutFile', ensures=['fresh(result)', "result.content == ''", 'OPENED(result) == name'])
    reg.specfun('OPENED', [('f', 'OutFile')], 'str')
    reg.contract('BytesIO/new', assumed=True, params={}, returns='OutFile', ensures=['fresh(result)', "result.content == ''"])
    reg.contract('OutFile.write', assumed=True, kind='method', params={'self': 'OutFile', 'data': 'str'}, modifies=['self'], ensures=['self.content == old(self.content) + data'])
    reg.contract('OutFile.getvalue', assumed=True, kind='method', pure=True, params={'self': 'OutFile'}, returns='str', ensures=['result == self.content'])
    reg.specfun('PICKLED', [('x', 'any')], 'str')
    reg.specfun('SAVED', [('l', 'Lark'), ('exclude', 'any')], 'str')
    reg.contract('pickle.dump', assumed=True, params={'obj': 'any', 'f': 'OutFile'}, modifies=['f'], ensures=['f.content == old(f.content) + PICKLED(obj)'])
    reg.contract('lark.lark:Lark.save', assumed=True, kind='method', params={'self': 'Lark', 'f': 'OutFile', 'exclude_options': 'any'}, modifies=['f'],
                 ensures=['f.content == old(f.content) + SAVED(self, exclude_options)'])
    reg.contract('lark.lark:Lark.__init__#save', serves=['C12', 'C11'], region=save_region,
                 params={'self': 'Lark', 'cache_fn': 'str', 'cache_sha256': 'opt[str]', 'used_files': 'any', '_LOAD_ALLOWED_OPTIONS': 'any'},
                 requires=['len(cache_fn) > 0', 'cache_sha256 is not None'],          # inside `if cache_fn:`; the key hash was computed with the name
                 ghost={'ensures_fall': [
                     "OPENED(f) == cache_fn",
                     "body == PICKLED(used_files) + SAVED(self, _LOAD_ALLOWED_OPTIONS)",
                     "f.content == val(cache_sha256).encode('utf8') + b'\\n' + SHA(body.decode('latin-1')).encode('utf8') + b'\\n' + body"]},
                 names={'FS.open': ('contract', 'FS.open/wb'), 'BytesIO': ('contract', 'BytesIO/new'), 'pickle.dump': ('contract', 'pickle.dump'),
                        'sha256_digest': ('contract', 'lark.utils:sha256_digest')},
                 replay=_replay)
