"""C08 - rejections are UnexpectedInput errors at the first offending position.

No kernel of its own: the clauses of the statement are obligations of contracts that live with other properties and are
re-generated here under this property's name (exception-type closure `raises`, `post.raise.*`, `term`, `safety`):
  C02  ParserState.feed_token         only UnexpectedToken escapes; raised before any shift of the bad token; expected = terminal
                                      keys of the state on top after the default reductions; termination under WF4
  C13  InteractiveParser.accepts      every member can be fed and belongs to choices() (hence to `expected`); feed_token delegation
  C06  BasicLexer.next_token          UnexpectedCharacters exactly at the first unmatched offset, with exact line/column; EOFError at the end
  C18  Indenter.handle_NL/_process    only DedentError escapes (no IndexError / AssertionError)
"""
PROPERTY = 'C08'
UNITS = ['C02', 'C13', 'C06', 'C18']
TRUSTED = []
ASSUMPTIONS = ['Earley error sets (expected/allowed equal or contain the legal continuations) are Earley correctness: not decided',
               'viable-prefix property of the LALR table (error at the FIRST offending token) rests on the table: bounded stand-in of C02 only']


def register(reg):
    pass
