"""C08 - rejections are UnexpectedInput errors at the first offending position.

No kernel of its own: the clauses of the statement are obligations of contracts that live with other properties and are
re-generated here under this property's name (exception-type closure `raises`, `post.raise.*`, `term`, `safety`):
  C02  ParserState.feed_token         only UnexpectedToken escapes; raised before any shift of the bad token; expected = terminal
                                      keys of the state on top after the default reductions; termination under WF4
  C13  InteractiveParser.accepts      every member can be fed and belongs to choices() (hence to `expected`); feed_token delegation
  C06  BasicLexer.next_token          UnexpectedCharacters exactly at the first unmatched offset, with exact line/column; EOFError at the end
  C18  Indenter.handle_NL/_process    only DedentError escapes (no IndexError / AssertionError)
"""
PROPERTY = 'C08'
UNITS = ['C02', 'C13', 'C06', 'C18']
TRUSTED = []
ASSUMPTIONS = ['Earley error sets (expected/allowed equal or contain the legal continuations) are Earley correctness: not decided',
               'viable-prefix property of the LALR table (error at the FIRST offending token) rests on the table: bounded stand-in of C02 only']


from pyvc.util import native_file
BOUNDED = [dict(name='standin.lalr-errors', function='LALR: rejection at the first offending token, never a foreign exception or a hang (table construction is not under contract)',
                code=native_file('bounded/c02_lalr.py'),
                bound={'quick': 'as C02 standin.lalr-table: 200 random grammars x all terminal strings of length <= 4', 'thorough': '1200 grammars, length <= 5'},
                note='bounded stand-in: never counted as proved'),
           dict(name='standin.error-reports', function='error class / position / expected sets for Earley (basic, dynamic, dynamic_complete), LALR $END coordinates, custom lexers',
                code=native_file('bounded/c08_errors.py'),
                bound={'quick': '5 grammars x 3 Earley lexers + LALR x all texts of length <= 4: error class, position, expected/allowed vs brute force over one-token extensions',
                       'thorough': 'texts of length <= 6'},
                note='bounded stand-in: never counted as proved')]


def register(reg):
    pass
