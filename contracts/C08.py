"""C08 - rejections are UnexpectedInput errors at the first offending position.

No kernel of its own: the clauses of the statement are obligations of contracts that live with other properties and are
re-generated here under this property's name (exception-type closure `raises`, `post.raise.*`, `term`, `safety`):
  C02  ParserState.feed_token         only UnexpectedToken escapes; raised before any shift of the bad token; expected = terminal
                                      keys of the state on top after the default reductions; termination under WF4
  C13  InteractiveParser.accepts      every member can be fed and belongs to choices() (hence to `expected`); feed_token delegation
  C06  BasicLexer.next_token          UnexpectedCharacters exactly at the first unmatched offset, with exact line/column; EOFError at the end
  C18  Indenter.handle_NL/_process    only DedentError escapes (no IndexError / AssertionError)
"""
PROPERTY = 'C08'
UNITS = ['C08', 'C02', 'C13', 'C06', 'C18']
TRUSTED = []
ASSUMPTIONS = ['Earley error sets (expected/allowed equal or contain the legal continuations) are Earley correctness: not decided',
               'viable-prefix property of the LALR table (error at the FIRST offending token) rests on the table: bounded stand-in of C02 only']


from pyvc.util import native_file
BOUNDED = [dict(name='standin.lalr-errors', function='LALR: rejection at the first offending token, never a foreign exception or a hang (table construction is not under contract)',
                code=native_file('bounded/c02_lalr.py'),
                bound={'quick': 'as C02 standin.lalr-table: 200 random grammars x all terminal strings of length <= 4', 'thorough': '1200 grammars, length <= 5'},
                note='bounded stand-in: never counted as proved'),
           dict(name='standin.error-reports', function='error class / position / expected sets for Earley (basic, dynamic, dynamic_complete), LALR $END coordinates, custom lexers',
                code=native_file('bounded/c08_errors.py'),
                bound={'quick': '5 grammars x 3 Earley lexers + LALR x all texts of length <= 4: error class, position, expected/allowed vs brute force over one-token extensions',
                       'thorough': 'texts of length <= 6'},
                note='bounded stand-in: never counted as proved')]


def _replay(model):
    return native_file('bounded/c08_errors.py')


def _main_loop_region(fn):
    import ast
    for n in fn.body:
        if isinstance(n, ast.Try) and 'new_borrow_pos' in ast.unparse(n):
            return n.body          # the statements of the try block: the loop over the stream and the end-of-input step
    return None


def register(reg):
    """own kernel: the LALR main loop builds the end-of-input token from the LAST TOKEN OF THE STREAM it fed (or the caller's last_token
    for an empty stream, or offset 0 / line 1 / column 1): an unexpected $END therefore carries the coordinates of the last token."""
    POS = ('start_pos', 'line', 'column', 'end_line', 'end_column', 'end_pos')
    reg.cls('Token', target='lark.lexer:Token', fields=dict({'type': 'str', 'value': 'any'}, **{f: 'any' for f in POS}))
    reg.cls('PState', fields={'lexer': 'PLexer'})
    reg.cls('PLexer')
    reg.specfun('NTOK', [('l', 'PLexer'), ('s', 'PState')], 'int', doc='number of tokens the lexer thread yields for this parse')
    reg.specfun('TOKAT', [('l', 'PLexer'), ('s', 'PState'), ('i', 'int')], 'Token')
    # the stream as a sequence: what it contains may depend on anything (contextual lexing); only its identity as "what was fed" matters here
    reg.contract('PLexer.lex', assumed=True, kind='method', pure=True, params={'self': 'PLexer', 'parser_state': 'PState'}, returns='seq[Token]',
                 ensures=['len(result) == NTOK(self, parser_state)', 'NTOK(self, parser_state) >= 0',
                          'all(result[i] is TOKAT(self, parser_state, i) for i in range(0, NTOK(self, parser_state)))'])
    reg.contract('PState.feed_token', assumed=True, kind='method', params={'self': 'PState', 'token': 'Token', 'is_end': 'bool'}, returns='any',
                 ghost={'defaults': {'is_end': False}}, raises={'UnexpectedInput': []},
                 ensures=['self.lexer is old(self.lexer)'] + ['token.%s == old(token.%s)' % (f, f) for f in POS])       # the driver does not move tokens (C02 kernel)
    reg.contract('Token.new_borrow_pos', assumed=True, kind='classmethod', params={'type_': 'str', 'value': 'any', 'borrow_t': 'Token'}, returns='Token',
                 ensures=['fresh(result)', 'result.type == type_'] + ['result.%s == borrow_t.%s' % (f, f) for f in POS])
    reg.contract('lark.lexer:Token.__init__', assumed=True, kind='method', modifies=['self'],
                 params=dict({'self': 'Token', 'type': 'str', 'value': 'any'}, **{f: 'any' for f in POS[:3]}),
                 ensures=['self.type == type', 'self.start_pos == start_pos', 'self.line == line', 'self.column == column'])
    for e, b in (('LarkError', ['Exception']), ('UnexpectedInput', ['LarkError']), ('NameError', ['Exception'])):
        reg.cls(e, exception=True, bases=b, fields={'interactive_parser': 'any'} if e == 'UnexpectedInput' else None)
    reg.cls('InteractiveParser')
    reg.contract('InteractiveParser.__init__', assumed=True, kind='method', params={'self': 'InteractiveParser', 'parser': 'any', 'parser_state': 'PState', 'lexer_thread': 'PLexer'},
                 modifies=['self'], raises={'NameError': []})
    LAST = 'TOKAT(state.lexer, state, NTOK(state.lexer, state) - 1)'
    reg.contract('lark.parsers.lalr_parser:_Parser.parse_from_state#loop', serves=['C08'], region=_main_loop_region,
                 params={'state': 'PState', 'last_token': 'opt[Token]'}, returns='any',
                 ghost={# proved where the end-of-input token is fed: it is a $END token placed at the last token of the stream ...
                        'Return#0': ["end_token.type == '$END'",
                                     'implies(NTOK(state.lexer, state) >= 1, %s)' % ' and '.join('end_token.%s == %s.%s' % (f, LAST, f) for f in POS),
                                     # ... for an empty stream at the caller's last token, else at the very beginning
                                     'implies(NTOK(state.lexer, state) == 0 and last_token is not None, %s)' % ' and '.join('end_token.%s == val(last_token).%s' % (f, f) for f in POS),
                                     'implies(NTOK(state.lexer, state) == 0 and last_token is None, end_token.start_pos == cast(0, any) and end_token.line == cast(1, any) and end_token.column == cast(1, any))']},
                 raises={'UnexpectedInput': [], 'Exception': []},
                 types={'token': 'opt[Token]'},
                 loops={0: dict(inv=['state.lexer is old(state.lexer)',
                                     'implies(_i0 == 0, token is last_token)',
                                     'implies(_i0 >= 1, token is _s0[_i0 - 1])'])},
                 names={'Token.new_borrow_pos': ('contract', 'Token.new_borrow_pos'), 'Token': ('class', 'Token'), 'InteractiveParser': ('class', 'InteractiveParser'),
                        'UnexpectedInput': ('class', 'UnexpectedInput'), 'NameError': ('class', 'NameError')},
                 replay=_replay)
