"""C05 - default ambiguity resolution is a priority-optimal, deterministic choice: the local equations and the load-time priority handling."""
import ast
from pyvc.util import native_file

PROPERTY = 'C05'
UNITS = ['C05', 'C03']        # Grammar.compile#own-options (C03's unit) carries 'fresh instances' for the in-place priority handling
TRUSTED = [
    "sorted(key): a permutation ordered by the key; set iteration order arbitrary (ties in a plain SymbolNode are therefore unordered: determinism only for ordered_sets=True)",
    "bellman lemma (local equations => the first-child derivation attains the maximum over all derivations below a node): pencil proof in DESIGN.md, not machine checked",
]
ASSUMPTIONS = [
    "that the forest contains all derivations (C04/C20) and hash-seed independence of the whole Earley run are not decided",
    "priorities are integers here (float('-inf') only marks 'not yet computed')",
]
BOUNDED = [dict(name='crosscheck.priority', function='resolve-mode choice vs the maximum over all derivations (ambiguity=explicit), normal/invert/None, hash seeds',
                code=native_file('bounded/c05_priority.py'),
                bound={'quick': '6 grammars x priorities in {-1,0,1,2}^2 x normal/invert/None x basic/dynamic x inputs; 3 hash seeds',
                       'thorough': 'priorities in {-2..2}^2, 6 hash seeds'},
                note='CPython cross-check and replay search; not counted as obligations')]


def _replay(model):
    return native_file('bounded/c05_priority.py')


def priority_region(fn):
    for s in ast.walk(fn):
        if isinstance(s, ast.If) and ast.unparse(s.test) == "self.options.priority == 'invert'":
            return [s]
    return None


def register(reg):
    S = ['C05']
    reg.cls('RuleOptions', fields={'priority': 'opt[int]'})
    reg.cls('Rule', consts={'options': 'RuleOptions', 'order': 'int'})
    reg.cls('ForestNode', fields={'priority': 'int'})
    reg.cls('SymbolNode', target='lark.parsers.earley_forest:SymbolNode', bases=['ForestNode'], consts={'is_intermediate': 'bool'}, fields={'_children': 'set[PackedNode]', 'paths_loaded': 'bool'})
    reg.cls('TokenNode', bases=['ForestNode'])
    reg.cls('PackedNode', target='lark.parsers.earley_forest:PackedNode', bases=['ForestNode'],
            consts={'parent': 'SymbolNode', 'rule': 'Rule', 'left': 'opt[ForestNode]', 'right': 'opt[ForestNode]'})
    reg.cls('ForestSumVisitor', target='lark.parsers.earley_forest:ForestSumVisitor')

    PRIO = lambda x: '(0 if %s is None else %s.priority)' % (x, x)
    reg.contract('lark.parsers.earley_forest:ForestSumVisitor.visit_packed_node_out', serves=S, kind='method',
                 params={'self': 'ForestSumVisitor', 'node': 'PackedNode'}, modifies=['node'],
                 requires=['node.left is not node', 'node.right is not node'],
                 # total priority of a derivation step: the rule's own priority - counted once per rule application, i.e. only on the node
                 # that completes the rule (parent is a symbol node, not an intermediate one) - plus both sub-derivations
                 ensures=['node.priority == (val(node.rule.options.priority) if (not node.parent.is_intermediate and node.rule.options.priority is not None) else 0) + %s + %s'
                          % (PRIO('old(node.right)'), PRIO('old(node.left)'))],
                 replay=_replay)
    reg.contract('lark.parsers.earley_forest:PackedNode.is_empty', serves=S, kind='property', pure=True, params={'self': 'PackedNode'}, returns='bool',
                 ensures=['result == (self.left is None and self.right is None)'])
    reg.contract('lark.parsers.earley_forest:PackedNode.sort_key', serves=S, kind='property', pure=True, params={'self': 'PackedNode'}, returns='tuple[bool,int,int]',
                 ensures=['result == ((self.left is None and self.right is None), -self.priority, self.rule.order)'])
    EMPTY = lambda x: '(%s.left is None and %s.right is None)' % (x, x)
    BEFORE = lambda x, y: ('((not %s and %s) or (%s == %s and (%s.priority > %s.priority or (%s.priority == %s.priority and %s.rule.order < %s.rule.order))))'
                           % (EMPTY(x), EMPTY(y), EMPTY(x), EMPTY(y), x, y, x, y, x, y))
    reg.contract('lark.parsers.earley_forest:SymbolNode.load_paths', assumed=True, kind='method', params={'self': 'SymbolNode'}, modifies=['self'],
                 ensures=['self.paths_loaded'])
    reg.contract('lark.parsers.earley_forest:SymbolNode.children', serves=S, kind='property',
                 params={'self': 'SymbolNode'}, returns='list[PackedNode]', modifies=['self'],
                 ensures=['fresh(result)', 'len(result) == len(self._children)', 'implies(old(self.paths_loaded), self._children is old(self._children))',
                          # alternatives in the documented order: non-empty first, then higher priority, then lower rule order
                          'all(not %s for i in range(0, len(result)) for j in range(i + 1, len(result)))' % BEFORE('result[j]', 'result[i]'),
                          'all(result[i] in self._children for i in range(0, len(result)))',
                          'all(implies(c in self._children, any(result[i] is c for i in range(0, len(result)))) for c in PACKEDNODES)'],
                 names={'attrgetter': ('builtin', 'attrgetter')}, replay=_replay)
    reg.contract('lark.parsers.earley_forest:ForestSumVisitor.visit_symbol_node_out', serves=S, kind='method',
                 params={'self': 'ForestSumVisitor', 'node': 'SymbolNode'}, modifies=['node'],
                 requires=['node.paths_loaded', 'len(node._children) > 0'],
                 # the best alternative
                 ensures=['all(node.priority >= c.priority for c in node._children)', 'any(node.priority == c.priority for c in node._children)'],
                 raises={}, replay=_replay)

    # ---- load-time handling of the priority option (statement region of Lark.__init__)
    reg.cls('TerminalDef', fields={'priority': 'int'})
    reg.cls('LarkOptions', consts={'priority': 'opt[str]'})
    reg.cls('Lark', consts={'options': 'LarkOptions', 'rules': 'list[Rule]', 'terminals': 'list[TerminalDef]'})
    OP = 'self.rules[k].options'
    OLDP = 'old(content_priority)'
    reg.contract('lark.lark:Lark.__init__#priority', serves=S, region=priority_region,
                 params={'self': 'Lark'},
                 requires=['all(self.terminals[i] is not self.terminals[j] for i in range(0, len(self.terminals)) for j in range(i + 1, len(self.terminals)))'],
                 modifies=['mapattr(self.rules, "options")', 'elements(self.terminals)'],
                 ghost={'ensures_fall': [
                     # invert: every priority (of every options object reachable from a rule - alternatives of one rule SHARE one) negated exactly once
                     "implies(self.options.priority == 'invert', all(%s.priority == (None if old(%s.priority) is None else -val(old(%s.priority))) for k in range(0, len(self.rules))))" % (OP, OP, OP),
                     "implies(self.options.priority == 'invert', all(self.terminals[k].priority == -old(self.terminals[k].priority) for k in range(0, len(self.terminals))))",
                     # None: unaffected by priorities
                     "implies(self.options.priority is None, all(%s.priority is None for k in range(0, len(self.rules))) and all(self.terminals[k].priority == 0 for k in range(0, len(self.terminals))))" % OP,
                     # normal: untouched
                     "implies(self.options.priority is not None and self.options.priority != 'invert', all(%s.priority == old(%s.priority) for k in range(0, len(self.rules))) "
                     "and all(self.terminals[k].priority == old(self.terminals[k].priority) for k in range(0, len(self.terminals))))" % (OP, OP)]},
                 loops={
                     0: dict(inv=["self.options.priority == 'invert'",
                                  'all(implies(o is not None, o.priority == (old(o.priority) if (id(o) not in inverted or old(o.priority) is None) else -val(old(o.priority)))) for o in RULEOPTIONSS)',
                                  'all(implies(o is not None and id(o) in inverted, old(o.priority) is not None and any(self.rules[j].options is o for j in range(0, _i0))) for o in RULEOPTIONSS)',
                                  'all(implies(old(self.rules[j].options.priority) is not None, id(self.rules[j].options) in inverted) for j in range(0, _i0))',
                                  'all(t.priority == old(t.priority) for t in self.terminals)', 'fresh(inverted)']),
                     1: dict(inv=["self.options.priority == 'invert'",
                                  'all(%s.priority == (None if old(%s.priority) is None else -val(old(%s.priority))) for k in range(0, len(self.rules)))' % (OP, OP, OP),
                                  'all(self.terminals[k].priority == (-old(self.terminals[k].priority) if k < _i1 else old(self.terminals[k].priority)) for k in range(0, len(self.terminals)))']),
                     2: dict(inv=['self.options.priority is None',
                                  'all(implies(o is not None, o.priority is None or (o.priority == old(o.priority) and not any(self.rules[j].options is o for j in range(0, _i2)))) for o in RULEOPTIONSS)',
                                  'all(t.priority == old(t.priority) for t in self.terminals)']),
                     3: dict(inv=['self.options.priority is None', 'all(%s.priority is None for k in range(0, len(self.rules)))' % OP,
                                  'all(self.terminals[k].priority == (0 if k < _i3 else old(self.terminals[k].priority)) for k in range(0, len(self.terminals)))'])},
                 types={'inverted': 'set[int]'},
                 replay=_replay)
