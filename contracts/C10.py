"""C10 - a Lark instance is a pure function of its input: reusable and thread-safe.

A sequential verifier can carry the FRAME discipline that makes the argument possible: a call writes only to objects it allocated,
except for listed write-once caches whose value is determined by immutable fields and which are published complete.
  own kernel   BasicLexer.scanner / search_scanner (write-once, nothing written once built, published after construction is complete),
               BasicLexer._build_scanner (reads only construction-time fields, writes only the callback table, never publishes
               _scanner itself), PatternRE._get_width (write-once, value a function of to_regexp()), _Parser.parse (fresh ParseConf and
               ParserState per call, the parser object itself untouched)
  re-used      frame / modifies obligations of next_token (C06), feed_token (C02), ParserState.__init__ and the fork API (C13),
               Indenter.process / _process (state reset at the start of every stream, C18)
Thread interleavings as such are outside this family of technique.
"""
import z3
from pyvc.ty import SV, ANY, AnyS
from pyvc.util import native_file

PROPERTY = 'C10'
UNITS = ['C10', 'C06', 'C02', 'C13', 'C18', 'C03']
TRUSTED = ["attribute assignment is atomic (CPython): a reader sees the old or the new value of a published field"]
ASSUMPTIONS = ["concurrency itself is not modelled: only the frame / write-once / publication discipline is proved",
               "user-supplied callbacks (lexer_callbacks are added to the shared callback table after it is assigned: note F17) and post-lexers other than Indenter are outside",
               "Earley per-parse state (columns, node caches, forest transformer) is covered by the bounded stand-in only"]
BOUNDED = [dict(name='standin.reuse', function='Lark.parse/lex/scan/parse_interactive on one instance: history independence, other instances, threads',
                code=native_file('bounded/c10_reuse.py'),
                bound={'quick': '6 configurations (lalr basic/contextual, earley basic/dynamic, python-indenter, cyk) x call histories of length <= 3 over successful/failing/abandoned calls; 2 instances with equal regexp text and different flags; 8 threads x 40 parses on fresh instances',
                       'thorough': 'histories of length <= 4, 16 threads x 100 parses'},
                note='bounded stand-in: never counted as proved; thread schedules are sampled, not enumerated')]


def _replay(model):
    return native_file('bounded/c10_reuse.py')


def register(reg):
    S = ['C10']
    reg.cls('Scanner', fields={'terminals': 'list[TerminalDef]'})
    reg.cls('TerminalDef', consts={'name': 'str', 'priority': 'int'})
    reg.cls('BasicLexer', target='lark.lexer:BasicLexer',
            fields={'_scanner': 'opt[Scanner]', '_search_scanner': 'opt[Scanner]', 'callback': 'dict[str,any]'},
            consts={'terminals': 'list[TerminalDef]', 'g_regex_flags': 'any', 're': 'any', 'use_bytes': 'any', 'user_callbacks': 'dict[str,any]', 'ignore_types': 'set[str]'})
    reg.specfun('CU_TERMS', [('t', 'list[TerminalDef]'), ('f', 'any'), ('r', 'any'), ('b', 'any')], 'list[TerminalDef]')
    reg.specfun('SCANNER_OF', [('t', 'list[TerminalDef]'), ('f', 'any'), ('r', 'any'), ('b', 'any')], 'Scanner',
                doc='the scanner built from these arguments (Scanner construction is a function of its arguments)')
    reg.contract('lark.lexer:_create_unless', assumed=True, params={'terminals': 'list[TerminalDef]', 'g_regex_flags': 'any', 're_': 'any', 'use_bytes': 'any'},
                 returns='tuple[list[TerminalDef],dict[str,any]]',
                 ensures=['result[0] is CU_TERMS(terminals, g_regex_flags, re_, use_bytes)', 'fresh(result[1])'])
    reg.contract('Scanner.__init__', assumed=True, kind='method',
                 params={'self': 'Scanner', 'terminals': 'list[TerminalDef]', 'g_regex_flags': 'any', 're_': 'any', 'use_bytes': 'any'}, modifies=['self'],
                 ensures=['SAME_SCANNER(self, SCANNER_OF(terminals, g_regex_flags, re_, use_bytes))', 'self.terminals is terminals'])
    reg.specfun('SAME_SCANNER', [('a', 'Scanner'), ('b', 'Scanner')], 'bool', doc='equal behaviour (same terminals, flags, re module, use_bytes)')
    reg.cls('CallChain')
    reg.contract('CallChain.__init__', assumed=True, kind='method', params={'self': 'CallChain', 'callback1': 'any', 'callback2': 'any', 'cond': 'any'}, modifies=['self'])
    BUILT = 'SAME_SCANNER(result, SCANNER_OF(CU_TERMS(self.terminals, self.g_regex_flags, self.re, self.use_bytes), self.g_regex_flags, self.re, self.use_bytes))'
    reg.contract('lark.lexer:BasicLexer._build_scanner', serves=S, kind='method',
                 params={'self': 'BasicLexer'}, returns='Scanner', modifies=['self'],
                 requires=['self.user_callbacks is not self.callback'],
                 ghost={'publish': ['_scanner', '_search_scanner'],
                        'callv:all#0': None},
                 # the result is a function of fields that are fixed at construction time: any two builds (any two threads) agree
                 ensures=['fresh(result)', BUILT, 'fresh(self.callback)',
                          'self._scanner is old(self._scanner)', 'self._search_scanner is old(self._search_scanner)',
                          'all(implies(k in self.user_callbacks, k in self.callback) for k in STR)'],
                 loops={0: dict(inv=['fresh(self.callback)', 'self._scanner is old(self._scanner)', 'self._search_scanner is old(self._search_scanner)',
                                     'self.user_callbacks is not self.callback',
                                     'all(implies(j < _i0, _s0[j][0] in self.callback) for j in range(0, len(_s0)))'])},
                 names={'_create_unless': ('contract', 'lark.lexer:_create_unless'), 'Scanner': ('class', 'Scanner'), 'CallChain': ('class', 'CallChain'),
                        'expr:all(self.callback.values())': ('sv', SV(__import__('pyvc.ty', fromlist=['BOOL']).BOOL, z3.BoolVal(True)))},
                 replay=_replay)
    reg.contract('lark.lexer:BasicLexer._build_scanner/call', assumed=True, kind='method', params={'self': 'BasicLexer'}, returns='Scanner', modifies=['self'],
                 ensures=['fresh(result)', BUILT, 'self._scanner is old(self._scanner)', 'self._search_scanner is old(self._search_scanner)'])
    reg.contract('lark.lexer:BasicLexer.scanner', serves=S, kind='property',
                 params={'self': 'BasicLexer'}, returns='Scanner', modifies=['self'],
                 ghost={'publish': ['_scanner']},
                 ensures=['result is self._scanner',
                          # once built: nothing of the shared lexer is written any more (later calls, other threads)
                          'implies(old(self._scanner) is not None, self._scanner is old(self._scanner) and self.callback is old(self.callback) and self._search_scanner is old(self._search_scanner))',
                          'implies(old(self._scanner) is None, %s)' % BUILT],
                 names={'self._build_scanner': ('contract', 'lark.lexer:BasicLexer._build_scanner/call')},
                 replay=_replay)
    T, R = 'self.terminals', 'result.terminals'
    reg.contract('lark.lexer:BasicLexer.search_scanner', serves=['C10', 'C14'], kind='property',
                 params={'self': 'BasicLexer'}, returns='Scanner', modifies=['self'],
                 ghost={'publish': ['_search_scanner']},
                 ensures=['result is self._search_scanner',
                          'implies(old(self._search_scanner) is not None, self._search_scanner is old(self._search_scanner) and self.callback is old(self.callback) and self._scanner is old(self._scanner))',
                          'self._scanner is old(self._scanner)', 'self.callback is old(self.callback)',
                          # C14: the start search runs over EVERY non-ignored terminal of the lexer (keywords folded into a regexp terminal included: the
                          # regexp may itself be ignored) and over nothing else, in the lexer's order
                          'implies(old(self._search_scanner) is None, all(implies(%(T)s[i].name not in self.ignore_types, any(%(R)s[k] is %(T)s[i] for k in range(0, len(%(R)s)))) for i in range(0, len(%(T)s))))' % dict(T=T, R=R),
                          'implies(old(self._search_scanner) is None, all(any(%(R)s[k] is %(T)s[i] and %(T)s[i].name not in self.ignore_types for i in range(0, len(%(T)s))) for k in range(0, len(%(R)s))))' % dict(T=T, R=R),
                          'implies(old(self._search_scanner) is None, SAME_SCANNER(result, SCANNER_OF(result.terminals, self.g_regex_flags, self.re, self.use_bytes)))'],
                 names={'Scanner': ('class', 'Scanner')},
                 replay=_replay)

    reg.cls('PatternRE', target='lark.lexer:PatternRE', fields={'_width': 'opt[tuple[int,int]]'}, consts={'value': 'str', 'flags': 'any'})
    reg.specfun('REGEXP', [('p', 'PatternRE')], 'str', doc='to_regexp(): value wrapped in its flags')
    reg.specfun('WIDTHOF', [('r', 'str')], 'tuple[int,int]')
    reg.contract('lark.lexer:PatternRE.to_regexp', assumed=True, kind='method', pure=True, params={'self': 'PatternRE'}, returns='str', ensures=['result == REGEXP(self)'])
    reg.contract('lark.utils:get_regexp_width', assumed=True, pure=True, params={'expr': 'str'}, returns='tuple[int,int]', ensures=['result == WIDTHOF(expr)'])
    reg.contract('lark.lexer:PatternRE._get_width', serves=S + ['C07'], kind='method',
                 params={'self': 'PatternRE'}, returns='tuple[int,int]', modifies=['self'],
                 requires=['implies(self._width is not None, val(self._width) == WIDTHOF(REGEXP(self)))'],
                 # the cached width is that of THIS pattern's regexp (value and flags) - whatever other patterns or instances exist
                 ensures=['result == WIDTHOF(REGEXP(self))', 'self._width is not None', 'val(self._width) == WIDTHOF(REGEXP(self))',
                          'implies(old(self._width) is not None, self._width == old(self._width))'],
                 names={'get_regexp_width': ('contract', 'lark.utils:get_regexp_width')}, replay=_replay)

    # ---- a fresh parser state per call
    reg.cls('ParseConf')
    reg.cls('ParserState', fields={'parse_conf': 'ParseConf', 'lexer': 'any'})
    reg.cls('InteractiveParser')
    reg.cls('_Parser', target='lark.parsers.lalr_parser:_Parser', consts={'parse_table': 'any', 'callbacks': 'any', 'debug': 'any'})
    reg.contract('ParseConf.__init__', assumed=True, kind='method', params={'self': 'ParseConf', 'parse_table': 'any', 'callbacks': 'any', 'start': 'str'}, modifies=['self'])
    reg.contract('ParserState.__init__', assumed=True, kind='method',
                 params={'self': 'ParserState', 'parse_conf': 'ParseConf', 'lexer': 'any', 'state_stack': 'any', 'value_stack': 'any'}, modifies=['self'],
                 ensures=['self.parse_conf is parse_conf', 'self.lexer == lexer'])
    reg.contract('InteractiveParser.__init__', assumed=True, kind='method',
                 params={'self': 'InteractiveParser', 'parser': '_Parser', 'parser_state': 'ParserState', 'lexer_thread': 'any'}, modifies=['self'])
    reg.specfun('PARSE_RESULT', [('s', 'ParserState')], 'any')
    reg.contract('lark.parsers.lalr_parser:_Parser.parse_from_state', assumed=True, kind='method',
                 params={'self': '_Parser', 'state': 'ParserState', 'last_token': 'any'}, returns='any', modifies=['state'],
                 ghost={'defaults': {'last_token': None}}, raises={'UnexpectedInput': []}, ensures=['result == PARSE_RESULT(state)'])
    reg.cls('UnexpectedInput', exception=True, bases=['Exception'])
    reg.contract('lark.parsers.lalr_parser:_Parser.parse', serves=S, kind='method',
                 params={'self': '_Parser', 'lexer': 'any', 'start': 'str', 'value_stack': 'any', 'state_stack': 'any', 'start_interactive': 'bool'}, returns='any',
                 ghost={'defaults': {'value_stack': None, 'state_stack': None, 'start_interactive': False}},
                 modifies=[],            # nothing that existed before the call - in particular nothing of the shared parser object - is written
                 ensures=['fresh(parse_conf)', 'fresh(parser_state)'],
                 raises={'UnexpectedInput': []},
                 names={'ParseConf': ('class', 'ParseConf'), 'ParserState': ('class', 'ParserState'), 'InteractiveParser': ('class', 'InteractiveParser')},
                 replay=_replay)
