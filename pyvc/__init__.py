"""pyvc - contract-based VC generation for the real Python functions of /repo (see /verif/DESIGN.md)."""
