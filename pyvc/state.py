"""Symbolic state: environment, Boogie-style heap (one SMT array per field / container component), path condition."""
import z3
from .ty import Ref, NULL, sort_of, sort_name, fresh, SV, SeqV, Ty, INT, BOOL

I = z3.IntSort()
B = z3.BoolSort()

# immutable dynamic class tag of a heap object
dtype = z3.Function('dtype', Ref, I)

_key_sorts = {}
_entry_arrays = {}


def key_alloc(): return _mk(('alloc',), z3.ArraySort(Ref, B))
def key_len(): return _mk(('len',), z3.ArraySort(Ref, I))
def key_arr(s): return _mk(('arr', sort_name(s)), z3.ArraySort(Ref, z3.ArraySort(I, s)))
def key_dom(k): return _mk(('dom', sort_name(k)), z3.ArraySort(Ref, z3.ArraySort(k, B)))
def key_val(k, v): return _mk(('val', sort_name(k), sort_name(v)), z3.ArraySort(Ref, z3.ArraySort(k, v)))
def key_mem(s): return _mk(('mem', sort_name(s)), z3.ArraySort(Ref, z3.ArraySort(s, B)))
def key_fld(c, f, s): return _mk(('fld', c, f), z3.ArraySort(Ref, s))
def key_ord(k): return _mk(('ord', sort_name(k)), z3.ArraySort(Ref, z3.ArraySort(I, k)))   # insertion order of dict keys (ghost)
def key_card(): return _mk(('card',), z3.ArraySort(Ref, I))                                  # number of keys / members


def _mk(key, sort):
    if key not in _key_sorts:
        _key_sorts[key] = sort
    return key


def key_sort(key):
    return _key_sorts[key]


def entry_array(key):
    if key not in _entry_arrays:
        _entry_arrays[key] = z3.Const('H0_' + '_'.join(key), _key_sorts[key])
    return _entry_arrays[key]


class State:
    __slots__ = ('env', 'heap', 'pc', 'out', 'havocked', 'tags')

    def __init__(self, env=None, heap=None, pc=None, out=None, havocked=False, tags=None):
        self.env = dict(env or {})
        self.heap = dict(heap or {})
        self.pc = list(pc or [])
        self.out = out
        self.havocked = havocked
        self.tags = dict(tags or {})

    def copy(self):
        return State(self.env, self.heap, self.pc, self.out, self.havocked, self.tags)

    def H(self, key):
        if key not in self.heap:
            # a component first touched after a havoc (loop cut / call) has unknown content: frame information is lost, never invented
            self.heap[key] = fresh('Hlate_' + '_'.join(key), _key_sorts[key]) if self.havocked else entry_array(key)
        return self.heap[key]

    def setH(self, key, arr):
        self.heap[key] = arr

    def assume(self, *facts):
        for f in facts:
            if f is not None and not z3.is_true(f):
                self.pc.append(f)

    # ---- allocation
    def alloc(self, r):
        return z3.Select(self.H(key_alloc()), r)

    def new_ref(self, name='obj', cid=None):
        r = fresh(name, Ref)
        self.assume(r != NULL, z3.Not(self.alloc(r)))
        self.setH(key_alloc(), z3.Store(self.H(key_alloc()), r, True))
        if cid is not None:
            self.assume(dtype(r) == cid)
        return r

    # ---- lists
    def llen(self, r):
        return z3.Select(self.H(key_len()), r)

    def larr(self, r, s):
        return z3.Select(self.H(key_arr(s)), r)

    def lset(self, r, s, arr=None, n=None):
        if arr is not None:
            self.setH(key_arr(s), z3.Store(self.H(key_arr(s)), r, arr))
        if n is not None:
            self.setH(key_len(), z3.Store(self.H(key_len()), r, n))

    def list_seq(self, sv):
        """snapshot of a list's content as a mathematical sequence"""
        e = sv.ty.args[0]
        return SeqV(e, self.larr(sv.z, sort_of(e)), self.llen(sv.z))

    # ---- dicts
    def ddom(self, r, k):
        return z3.Select(self.H(key_dom(k)), r)

    def dval(self, r, k, v):
        return z3.Select(self.H(key_val(k, v)), r)

    def dset(self, r, k, v, dom=None, val=None):
        if dom is not None:
            self.setH(key_dom(k), z3.Store(self.H(key_dom(k)), r, dom))
        if val is not None:
            self.setH(key_val(k, v), z3.Store(self.H(key_val(k, v)), r, val))

    # ---- sets
    def smem(self, r, s):
        return z3.Select(self.H(key_mem(s)), r)

    def sset(self, r, s, mem):
        self.setH(key_mem(s), z3.Store(self.H(key_mem(s)), r, mem))

    # ---- fields
    def fld(self, r, c, f, s):
        return z3.Select(self.H(key_fld(c, f, s)), r)

    def fset(self, r, c, f, s, v):
        self.setH(key_fld(c, f, s), z3.Store(self.H(key_fld(c, f, s)), r, v))
