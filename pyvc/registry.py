"""Sidecar contract registry: class declarations, function contracts, spec functions, lemmas.

Contract files under /verif/contracts/*.py call these functions at import time. Nothing here
touches /repo; the targets are resolved against the *current* working tree on every run.
"""
from .ty import parse_type, Ty, NONE


class ClassDecl:
    def __init__(self, name, target=None, bases=(), fields=None, consts=None, invariant=(), eq=None,
                 truthy=None, exception=False, value_semantics=False, dynamic=()):
        self.name = name
        self.target = target            # 'module:QualName' in /repo, or None for builtins/externals
        self.bases = list(bases)
        self.fields = {k: parse_type(v) for k, v in (fields or {}).items()}     # mutable, heap-backed
        self.consts = {k: parse_type(v) for k, v in (consts or {}).items()}     # never assigned after construction
        self.invariant = list(invariant)   # spec strings over `self`, assumed for every instance read from anywhere
        self.eq = eq                       # None: identity; else spec string over (self, other)
        self.truthy = truthy               # None: always true; else spec string over self
        self.exception = exception
        self.dynamic = set(dynamic)        # opt-typed fields that model attributes which may be ABSENT (None = absent): hasattr/getattr-with-default
        self.cid = None


class Contract:
    def __init__(self, target, params=None, returns=None, requires=(), ensures=(), raises=None, modifies=(),
                 decreases=None, loops=None, generator=None, serves=(), assumed=False, kind=None, names=None,
                 ghost=None, replay=None, region=None, pure=False, reads_only=False, fresh_result=False,
                 types=None, callbacks=None, inline=False, lemmas=(), notes='', exc_fields=None, canary=True, ghost_params=()):
        self.target = target                 # 'lark.utils:small_factors' / 'lark.lexer:LineCounter.feed'
        self.params = [(k, parse_type(v)) for k, v in (params or {}).items()]
        self.returns = parse_type(returns) if returns is not None else NONE
        self.requires = list(requires)
        self.ensures = list(ensures)             # spec strings; (spec, finding id, exclusion) marks a clause with a recorded known finding
        self.raises = {k: list(v) for k, v in (raises or {}).items()}     # exc class -> postconditions on that exit
        self.modifies = list(modifies)       # spec exprs denoting objects (all fields) whose state may change
        self.decreases = decreases
        self.loops = loops or {}             # ordinal -> dict(inv=[...], decreases=str, ghost=...)
        self.generator = parse_type(generator) if generator else None      # element type of the yielded stream
        self.serves = list(serves)
        self.assumed = assumed               # external / trusted: body not verified
        self.kind = kind                     # function | method | classmethod | staticmethod | property
        self.names = names or {}             # resolution of free names used in the body: name -> ('contract', target) | ('const', ty, value) | ('class', name)
        self.ghost = ghost or {}
        self.replay = replay
        self.region = region
        self.pure = pure
        self.fresh_result = fresh_result
        self.types = {k: parse_type(v) for k, v in (types or {}).items()}   # declared types of locals (when inference needs help)
        self.lemmas = list(lemmas)
        self.notes = notes
        self.canary = canary
        self.ghost_params = list(ghost_params)   # params that are not in the python signature (universally quantified spec inputs)

    @property
    def qualname(self):
        return self.target.split(':', 1)[-1]

    @property
    def module(self):
        return self.target.split(':', 1)[0] if ':' in self.target else 'external'


class SpecFun:
    def __init__(self, name, params, ret, body=None, native=None, axioms=(), doc=''):
        self.name = name
        self.params = [(k, parse_type(v)) for k, v in params]
        self.ret = parse_type(ret)
        self.body = body          # python expression string (recursive allowed) or None for uninterpreted
        self.native = native      # python callable for replay / cross-checks
        self.axioms = list(axioms)  # spec strings, universally closed over the params (assumed: builtin contracts) -- listed in trusted base
        self.doc = doc


class Lemma:
    """Ghost lemma: forall params. requires => ensures, proved by the engine (induction via `induct`)."""
    def __init__(self, name, params, requires=(), ensures=(), induct=None, hints=(), serves=()):
        self.name = name
        self.params = [(k, parse_type(v)) for k, v in params]
        self.requires = list(requires)
        self.ensures = list(ensures)             # spec strings; (spec, finding id, exclusion) marks a clause with a recorded known finding
        self.induct = induct      # name of an int param: IH = lemma at induct-1 (well-founded by requires induct >= base)
        self.hints = list(hints)  # extra instantiations: list of dicts param->expr strings assumed as IH instances (must decrease `induct`)
        self.serves = list(serves)


class Registry:
    def __init__(self):
        self.classes = {}
        self.contracts = {}
        self.specfuns = {}
        self.lemmas = {}
        self.axioms = []           # (name, spec string, params) global assumed facts (trusted)
        self.exc_parents = {}
        self.global_names = {}     # names visible in every contract / spec function of this registry (module-level constants)

    def cls(self, name, **kw):
        c = ClassDecl(name, **kw)
        c.cid = len(self.classes) + 1
        self.classes[name] = c
        return c

    def contract(self, target, **kw):
        c = Contract(target, **kw)
        self.contracts[target] = c
        return c

    def specfun(self, name, params, ret, **kw):
        f = SpecFun(name, params, ret, **kw)
        self.specfuns[name] = f
        return f

    def axiom(self, name, vars, body, patterns=()):
        """assumed fact (builtin contract / definitional semantics), universally closed over vars; listed in the trusted base"""
        self.axioms.append((name, [(k, parse_type(v)) for k, v in vars], body, list(patterns)))

    def lemma(self, name, params, **kw):
        l = Lemma(name, params, **kw)
        self.lemmas[name] = l
        return l

    # ---- class table helpers
    def mro(self, name):
        out, todo = [], [name]
        while todo:
            n = todo.pop(0)
            if n in out or n not in self.classes:
                continue
            out.append(n)
            todo += self.classes[n].bases
        return out

    def subclasses(self, name):
        return [c for c in self.classes if name in self.mro(c)]

    def find_field(self, cname, f):
        for c in self.mro(cname):
            d = self.classes[c]
            if f in d.fields:
                return ('field', c, d.fields[f])
            if f in d.consts:
                return ('const', c, d.consts[f])
        return None

    def find_method(self, cname, m):
        for c in self.mro(cname):
            d = self.classes[c]
            if d.target:
                t = '%s.%s' % (d.target, m)
                if t in self.contracts:
                    return self.contracts[t]
            t = '%s.%s' % (c, m)      # externals declared as 'ClassName.method'
            if t in self.contracts:
                return self.contracts[t]
        return None

    def is_exc_subclass(self, name, parent):
        return parent in self.exc_mro(name)

    def exc_mro(self, name):
        out, todo = [], [name]
        while todo:
            n = todo.pop(0)
            if n in out:
                continue
            out.append(n)
            todo += BUILTIN_EXC.get(n, []) if n not in self.classes else (self.classes[n].bases or ['Exception'])
        return out


BUILTIN_EXC = {
    'BaseException': [], 'Exception': ['BaseException'], 'LookupError': ['Exception'], 'IndexError': ['LookupError'],
    'KeyError': ['LookupError'], 'AssertionError': ['Exception'], 'ValueError': ['Exception'], 'TypeError': ['Exception'],
    'StopIteration': ['Exception'], 'ArithmeticError': ['Exception'], 'ZeroDivisionError': ['ArithmeticError'],
    'EOFError': ['Exception'], 'AttributeError': ['Exception'], 'NotImplementedError': ['RuntimeError'],
    'RuntimeError': ['Exception'], 'OSError': ['Exception'], 'IOError': ['Exception'], 'NameError': ['Exception'],
    'UnicodeDecodeError': ['ValueError'], 'ImportError': ['Exception'], 'FileNotFoundError': ['OSError'], 'MemoryError': ['Exception'],
    'OverflowError': ['ArithmeticError'], 'ConfigurationError': ['Exception'],
}
