"""Spec functions (compiled to z3 RecFunctions from their python-syntax bodies), their prefix lemmas, and ghost lemmas."""
import ast
import z3
from .ty import *
from .state import State
from .registry import Contract
from .exprs import ExprMixin
from .calls import CallMixin
from .engine import Obligation

I = z3.IntSort()


class SpecEval(ExprMixin, CallMixin):
    """pure evaluator used to compile spec-function bodies and lemma statements"""

    def __init__(self, reg):
        self.reg = reg
        self.c = Contract('spec:spec')
        self.specmode = 1
        self.spec_old = State()
        self.entry = State()
        self.closures = {}
        self.obls = []

    def oblige(self, *a, **k):
        pass

    def check(self, *a, **k):
        pass

    def check_write(self, *a, **k):
        pass

    def do_raise(self, *a, **k):
        pass

    def assume_typed(self, sv, st, depth=1):
        pass

    def spec_bool(self, src, st, **kw):
        node = ast.parse(src.strip(), mode='eval').body
        scratch = st.copy()
        if kw.get('env'):
            scratch.env = dict(kw['env'])
        v = self.ev1(node, scratch)
        return self.truthy(v, scratch), scratch.pc[len(st.pc):]


_DEFINED = {}     # one z3 definition per (name, signature, body) in the process: units that share a model share its functions


def formal(name, ty):
    if ty.kind == 'seq':
        s = SeqV(ty.args[0], z3.Const(name + '_a', z3.ArraySort(I, sort_of(ty.args[0]))), z3.Const(name + '_n', I))
        return s, [s.arr, s.n]
    v = SV(ty, z3.Const(name, sort_of(ty)))
    return v, [v.z]


def compile_specfuns(reg):
    """declare all, then define (mutual recursion allowed)"""
    ev = SpecEval(reg)
    for f in reg.specfuns.values():
        sorts = []
        for pn, pt in f.params:
            _, zs = formal('p_' + pn, pt)
            sorts += [z.sort() for z in zs]
        key = (f.name, tuple(str(x) for x in sorts), str(sort_of(f.ret)), f.body)
        f._fresh_def = key not in _DEFINED
        if f.body is not None:
            if key not in _DEFINED:
                n = sum(1 for k in _DEFINED if k[0] == f.name)
                _DEFINED[key] = z3.RecFunction(f.name if n == 0 else '%s_v%d' % (f.name, n), *sorts, sort_of(f.ret))
            f.z3fun = _DEFINED[key]
        else:
            _DEFINED.setdefault(key, z3.Function(f.name, *sorts, sort_of(f.ret)))
            f.z3fun = _DEFINED[key]
    for f in reg.specfuns.values():
        if f.body is None or not f._fresh_def:
            continue
        env, zs = {}, []
        for pn, pt in f.params:
            v, z = formal('p_' + pn, pt)
            env[pn] = v
            zs += z
        st = State(env=env)
        node = ast.parse(f.body.strip(), mode='eval').body
        v = ev.ev1(node, st)
        if st.pc:
            raise ValueError('spec function %s: body needs side axioms (use simpler sequence operations)' % f.name)
        v = ev.coerce(v, f.ret, st)
        z3.RecAddDefinition(f.z3fun, zs, v.z)
    # prefix-agreement lemmas
    for f in reg.specfuns.values():
        f.prefix_lemma = None
        if f.body is not None and f.params and f.params[0][1].kind == 'seq' and getattr(f, 'prefix', True):
            f.prefix_lemma = _mk_prefix_lemma(f)
    for f in reg.specfuns.values():
        f.concat_lemma = None
        if f.prefix_lemma and getattr(f, 'additive', False):
            f.concat_lemma = _mk_concat_lemma(f)
    return ev


def _mk_concat_lemma(f):
    """F(cat, n1+n2, ex) == F(a, n1, ex) + F(b, n2, ex) when cat = a[:n1] ++ b[:n2]  (proved by induction on n2)"""
    def lemma(cat, a, n1, b, n2):
        ex = _extras(f, 'cx')
        body = f.z3fun(cat, n1 + n2, *ex) == f.z3fun(a, n1, *ex) + f.z3fun(b, n2, *ex)
        if ex:
            body = z3.ForAll(ex, body, patterns=[f.z3fun(cat, n1 + n2, *ex)])
        return z3.Implies(z3.And(n1 >= 0, n2 >= 0), body)
    return lemma


def concat_lemma_obligations(reg, prop):
    obls = []
    for f in reg.specfuns.values():
        if not getattr(f, 'concat_lemma', None):
            continue
        es = sort_of(f.params[0][1].args[0])
        AS = z3.ArraySort(I, es)
        cat, a, b = z3.Const('lc', AS), z3.Const('la', AS), z3.Const('lb', AS)
        n1, n2 = z3.Ints('ln1 ln2')
        i = z3.Int('i!cl')
        ex = _extras(f, 'lx')
        shape = [z3.ForAll([i], z3.Implies(z3.And(0 <= i, i < n1), cat[i] == a[i])),
                 z3.ForAll([i], z3.Implies(z3.And(0 <= i, i < n2), cat[n1 + i] == b[i])), n1 >= 0, n2 >= 0]
        # base n2 == 0: prefix agreement
        obls.append(Obligation('%s/specfun.%s/lemma.concat.base' % (prop, f.name), shape + [n2 == 0, f.prefix_lemma(cat, a, n1)],
                               f.z3fun(cat, n1 + n2, *ex) == f.z3fun(a, n1, *ex) + f.z3fun(b, n2, *ex), 'lemma', 0, 'specfun.' + f.name,
                               text='additivity of %s over concatenation: base' % f.name))
        ex2 = _extras(f, 'ly')
        ih = f.z3fun(cat, n1 + n2 - 1, *ex2) == f.z3fun(a, n1, *ex2) + f.z3fun(b, n2 - 1, *ex2)
        if ex2:
            ih = z3.ForAll(ex2, ih, patterns=[f.z3fun(cat, n1 + n2 - 1, *ex2)])
        obls.append(Obligation('%s/specfun.%s/lemma.concat.step' % (prop, f.name), shape + [n2 > 0, ih],
                               f.z3fun(cat, n1 + n2, *ex) == f.z3fun(a, n1, *ex) + f.z3fun(b, n2, *ex), 'lemma', 0, 'specfun.' + f.name,
                               text='additivity of %s over concatenation: step' % f.name))
    return obls


def _extras(f, tag):
    zs = []
    for pn, pt in f.params[1:]:
        _, z = formal('%s_%s' % (tag, pn), pt)
        zs += z
    return zs


def _agree(a1, a2, n):
    i = z3.Int('i!ag')
    return z3.ForAll([i], z3.Implies(z3.And(0 <= i, i < n), a1[i] == a2[i]))


def _mk_prefix_lemma(f):
    def lemma(a1, a2, n):
        ex = _extras(f, 'lx')
        body = f.z3fun(a1, n, *ex) == f.z3fun(a2, n, *ex)
        if ex:
            body = z3.ForAll(ex, body, patterns=[f.z3fun(a1, n, *ex)])
        return z3.Implies(_agree(a1, a2, n), body)
    return lemma


def prefix_lemma_obligations(reg, prop):
    """induction on the length: the step case, with the IH at n-1 (valid: agreement on [0,n) gives agreement on [0,n-1))"""
    obls = []
    for f in reg.specfuns.values():
        if not f.prefix_lemma:
            continue
        es = sort_of(f.params[0][1].args[0])
        a1, a2 = z3.Const('la1', z3.ArraySort(I, es)), z3.Const('la2', z3.ArraySort(I, es))
        n = z3.Int('ln')
        ex = _extras(f, 'lx')
        ex2 = _extras(f, 'ly')
        ih = f.z3fun(a1, n - 1, *ex2) == f.z3fun(a2, n - 1, *ex2)
        if ex2:
            ih = z3.ForAll(ex2, ih, patterns=[f.z3fun(a1, n - 1, *ex2)])
        hyps = [_agree(a1, a2, n), z3.Implies(n > 0, ih)]
        # spec functions used in the body (other than f itself) may be assumed to satisfy their own prefix lemma (proved separately)
        for g in reg.specfuns.values():
            if g is not f and g.prefix_lemma and g.params[0][1] == f.params[0][1] and g.name in (f.body or ''):
                hyps += [g.prefix_lemma(a1, a2, n - 1), g.prefix_lemma(a1, a2, n)]
        goal = f.z3fun(a1, n, *ex) == f.z3fun(a2, n, *ex)
        obls.append(Obligation('%s/specfun.%s/lemma.prefix' % (prop, f.name), hyps, goal, 'lemma', 0, 'specfun.' + f.name,
                               text='prefix agreement of %s by induction on the length' % f.name))
    return obls


def lemma_obligations(reg, ev, prop):
    """ghost lemmas: forall params. requires => ensures; optional induction on an int parameter"""
    obls = []
    for l in reg.lemmas.values():
        env, zs = {}, []
        for pn, pt in l.params:
            v, z = formal('L_' + pn, pt)
            env[pn] = v
            zs += z
        st = State(env=env)
        hyps = []
        for r in l.requires:
            g, sides = ev.spec_bool(r, st, env=env)
            hyps += sides + [g]
        # induction hypothesis instances
        for h in l.hints:
            env2 = dict(env)
            for k, src in h.items():
                env2[k] = ev.ev1(ast.parse(src, mode='eval').body, State(env=env))
            dec = env2[l.induct].z < env[l.induct].z if l.induct else z3.BoolVal(False)
            pre, post = [], []
            for r in l.requires:
                g, sides = ev.spec_bool(r, st, env=env2)
                pre += sides + [g]
            for e in l.ensures:
                g, sides = ev.spec_bool(e, st, env=env2)
                hyps += sides
                post.append(g)
            hyps.append(z3.Implies(z3.And(dec, *pre), z3.And(*post)))
        for k, e in enumerate(l.ensures):
            g, sides = ev.spec_bool(e, st, env=env)
            obls.append(Obligation('%s/lemma.%s/lemma.e%d' % (prop, l.name, k), hyps + sides, g, 'lemma', 0, 'lemma.' + l.name, text=e))
    return obls


def lemma_instance(reg, ev, name, args_env, st):
    """assume a proved lemma at given arguments (ghost call): requires must be provable by the caller (obligation emitted by caller)"""
    l = reg.lemmas[name]
    pre, post, sides_all = [], [], []
    for r in l.requires:
        g, sides = ev.spec_bool(r, st, env=args_env)
        pre.append(g)
        sides_all += sides
    for e in l.ensures:
        g, sides = ev.spec_bool(e, st, env=args_env)
        post.append(g)
        sides_all += sides
    return pre, post, sides_all


def compile_axioms(reg, ev):
    out = []
    for ax in reg.axioms:
        if ax[0] == 'raw':
            out += list(ax[2](ev))
            continue
        name, vars_, body, pats = ax
        env, zs = {}, []
        for pn, pt in vars_:
            v, z = formal('A_' + pn, pt)
            env[pn] = v
            zs += z
        st = State(env=env)
        g, sides = ev.spec_bool(body, st, env=env)
        if sides:
            raise ValueError('axiom %s needs side definitions' % name)
        ps = []
        for p in pats:
            terms = p if isinstance(p, (list, tuple)) else [p]
            ts = [ev.ev1(ast.parse(t, mode='eval').body, State(env=env)).z for t in terms]
            ps.append(z3.MultiPattern(*ts) if len(ts) > 1 else ts[0])
        out.append(z3.ForAll(zs, g, patterns=ps) if zs else g)
    return out
