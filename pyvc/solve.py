"""Back ends: z3 (python API, in worker processes) first; `unknown` goes to the cvc5 and z3-4.8 command lines."""
import os
import subprocess
import tempfile
import time
import concurrent.futures as cf
import multiprocessing as mp

import z3

QUICK_TIMEOUT = int(os.environ.get('VERIF_SMT_TIMEOUT_MS', '20000'))


def to_smt2(obl):
    s = z3.Solver()
    for h in obl.hyps:
        s.add(h)
    s.add(z3.Not(obl.goal))
    return s.to_smt2()


def _solve_z3(smt2, timeout_ms, seed, want_model):
    ctx = z3.Context()
    s = z3.Solver(ctx=ctx)
    s.set('timeout', timeout_ms)
    s.set('random_seed', seed)
    s.from_string(smt2)
    t0 = time.time()
    r = s.check()
    dt = time.time() - t0
    model = None
    reason = ''
    if r == z3.sat and want_model:
        m = s.model()
        model = {}
        for d in m.decls():
            try:
                if d.arity() == 0:
                    model[d.name()] = str(m[d])[:400]
            except Exception:
                pass
    if r == z3.unknown:
        reason = s.reason_unknown()
    return str(r), dt, model, reason


def _solve_cli(cmd, smt2, timeout_s, prefix=''):
    with tempfile.NamedTemporaryFile('w', suffix='.smt2', delete=False) as f:
        f.write(prefix + smt2)
        path = f.name
    t0 = time.time()
    try:
        p = subprocess.run(cmd + [path], capture_output=True, text=True, timeout=timeout_s + 5)
        out = (p.stdout or '').strip().splitlines()
        r = out[0].strip() if out else 'unknown'
        if r not in ('sat', 'unsat', 'unknown'):
            r = 'unknown'
    except subprocess.TimeoutExpired:
        r = 'unknown'
    finally:
        os.unlink(path)
    return r, time.time() - t0


def work(job):
    name, smt2, timeout_ms, seed, expect_sat, second = job
    res = {'name': name, 'tried': []}
    r, dt, model, reason = _solve_z3(smt2, timeout_ms, seed, True)
    res['tried'].append(('z3-%s' % z3.get_version_string(), r, round(dt, 3)))
    res.update(result=r, by='z3-api', time=dt, model=model, reason=reason)
    if r == 'unknown' and not expect_sat:
        r2, dt2 = _solve_cli(['/usr/bin/cvc5', '--tlimit=%d' % timeout_ms], smt2, timeout_ms / 1000, '(set-logic ALL)\n')
        res['tried'].append(('cvc5', r2, round(dt2, 3)))
        res['time'] += dt2
        if r2 == 'unsat':
            res.update(result=r2, by='cvc5')
        else:
            r3, dt3 = _solve_cli(['/usr/bin/z3', '-T:%d' % max(1, timeout_ms // 1000)], smt2, timeout_ms / 1000)
            res['tried'].append(('z3-4.8', r3, round(dt3, 3)))
            res['time'] += dt3
            if r3 == 'unsat':
                res.update(result=r3, by='z3-4.8')
            elif 'sat' in (r2, r3):
                res.update(result='sat', by='cvc5' if r2 == 'sat' else 'z3-4.8')
    elif second and r == 'unsat':
        # thorough tier: an independent solver must agree
        r2, dt2 = _solve_cli(['/usr/bin/cvc5', '--tlimit=%d' % timeout_ms], smt2, timeout_ms / 1000, '(set-logic ALL)\n')
        res['tried'].append(('cvc5', r2, round(dt2, 3)))
        if r2 != 'unsat':
            r3, dt3 = _solve_cli(['/usr/bin/z3', '-T:%d' % max(1, timeout_ms // 1000)], smt2, timeout_ms / 1000)
            res['tried'].append(('z3-4.8', r3, round(dt3, 3)))
            r2 = r3 if r3 in ('sat', 'unsat') else r2
        res['second'] = r2
    return res


def discharge(obls, timeout_ms=None, seed=0, second=False, procs=None):
    timeout_ms = timeout_ms or QUICK_TIMEOUT
    jobs = []
    for o in obls:
        jobs.append((o.name, to_smt2(o), timeout_ms, seed, o.expect_sat, second))
    procs = procs or min(16, max(1, len(jobs)))
    results = {}
    if len(jobs) <= 2 or procs == 1:
        for j in jobs:
            results[j[0]] = work(j)
        return results
    ctx = mp.get_context('spawn')
    with cf.ProcessPoolExecutor(max_workers=procs, mp_context=ctx) as ex:
        for r in ex.map(work, jobs, chunksize=max(1, len(jobs) // (procs * 4))):
            results[r['name']] = r
    return results
