"""Back ends: z3 (python API, in worker processes) first; `unknown` goes to the cvc5 and z3-4.8 command lines."""
import os
import re
import subprocess
import tempfile
import time
import concurrent.futures as cf
import multiprocessing as mp

import z3

QUICK_TIMEOUT = int(os.environ.get('VERIF_SMT_TIMEOUT_MS', '20000'))


def to_smt2(obl):
    s = z3.Solver()
    for h in obl.hyps:
        s.add(h)
    s.add(z3.Not(obl.goal))
    return s.to_smt2()


def _solve_z3(smt2, timeout_ms, seed, want_model, opts=None):
    ctx = z3.Context()
    s = z3.Solver(ctx=ctx)
    s.set('timeout', timeout_ms)
    s.set('random_seed', seed)
    for k, v in (opts or {}).items():
        s.set(k, v)
    s.from_string(smt2)
    t0 = time.time()
    r = s.check()
    dt = time.time() - t0
    model = None
    reason = ''
    if r == z3.sat and want_model:
        m = s.model()
        model = {}
        for d in m.decls():
            try:
                if d.arity() == 0:
                    model[d.name()] = str(m[d])[:400]
            except Exception:
                pass
    if r == z3.unknown:
        reason = s.reason_unknown()
    return str(r), dt, model, reason


_REC_IDX = re.compile(r'\(_ ([A-Za-z_][A-Za-z_0-9.]*) 0\)')


def _solve_cli(cmd, smt2, timeout_s, prefix='', fix=False):
    if fix:
        smt2 = _REC_IDX.sub(r'\1', smt2)      # z3 prints recursive calls inside define-fun-rec as (_ f 0)
    with tempfile.NamedTemporaryFile('w', suffix='.smt2', delete=False) as f:
        f.write(prefix + smt2)
        path = f.name
    t0 = time.time()
    try:
        p = subprocess.run(cmd + [path], capture_output=True, text=True, timeout=timeout_s + 5)
        out = (p.stdout or '').strip().splitlines()
        r = out[0].strip() if out else 'unknown'
        if r not in ('sat', 'unsat', 'unknown'):
            r = 'unknown'
    except subprocess.TimeoutExpired:
        r = 'unknown'
    finally:
        os.unlink(path)
    return r, time.time() - t0


def _cvc5(smt2, timeout_ms):
    return _solve_cli(['/usr/bin/cvc5', '--tlimit=%d' % timeout_ms], smt2, timeout_ms / 1000, '(set-logic ALL)\n', fix=True)


def _z3old(smt2, timeout_ms):
    return _solve_cli(['/usr/bin/z3', '-T:%d' % max(1, timeout_ms // 1000)], smt2, timeout_ms / 1000)


def work(job):
    """portfolio: z3 5.1 (short) -> cvc5 -> z3 5.1 with the legacy arithmetic solver -> z3 4.8 -> z3 5.1 (full budget).
    `unsat` from any back end discharges; `sat` is only taken from a back end that returns a model we can show (z3 api),
    or from cvc5/z3-4.8 when z3 api stays unknown."""
    name, smt2, timeout_ms, seed, expect_sat, second = job
    res = {'name': name, 'tried': []}
    short = min(timeout_ms, 8000)
    r, dt, model, reason = _solve_z3(smt2, short, seed, True)
    ver = 'z3-%s' % z3.get_version_string()
    res['tried'].append((ver, r, round(dt, 3)))
    res.update(result=r, by='z3-api', time=dt, model=model, reason=reason)
    if r == 'unknown' and not expect_sat:
        sat_by = None
        part = max(4000, timeout_ms // 2)
        steps = [('cvc5', lambda: _cvc5(smt2, part)),
                 (ver + '/arith.solver=2', lambda: _solve_z3(smt2, part, seed, True, {'arith.solver': 2})),
                 ('z3-4.8', lambda: _z3old(smt2, part)),
                 (ver + '/full', lambda: _solve_z3(smt2, timeout_ms, seed + 1, True))]
        if os.environ.get('VERIF_FAST_UNKNOWN'):
            steps = steps[:1]
        for label, fn in steps:
            out = fn()
            r2, dt2 = out[0], out[1]
            res['tried'].append((label, r2, round(dt2, 3)))
            res['time'] += dt2
            if r2 == 'unsat':
                res.update(result='unsat', by=label.split('/')[0] if label.startswith('cvc5') or label == 'z3-4.8' else 'z3-api')
                break
            if r2 == 'sat':
                if len(out) > 2 and out[2] is not None:
                    res.update(result='sat', by='z3-api', model=out[2])
                    break
                sat_by = sat_by or label
        else:
            if sat_by:
                res.update(result='sat', by=sat_by)
    elif second and r == 'unsat':
        # thorough tier: an independent solver must agree
        r2, dt2 = _cvc5(smt2, timeout_ms)
        res['tried'].append(('cvc5', r2, round(dt2, 3)))
        if r2 != 'unsat':
            r3, dt3 = _z3old(smt2, timeout_ms)
            res['tried'].append(('z3-4.8', r3, round(dt3, 3)))
            r2 = r3 if r3 in ('sat', 'unsat') else r2
        res['second'] = r2
    return res


def discharge(obls, timeout_ms=None, seed=0, second=False, procs=None):
    timeout_ms = timeout_ms or QUICK_TIMEOUT
    jobs = []
    for o in obls:
        jobs.append((o.name, to_smt2(o), timeout_ms, seed, o.expect_sat, second))
    procs = procs or min(16, max(1, len(jobs)))
    results = {}
    if len(jobs) <= 2 or procs == 1:
        for j in jobs:
            results[j[0]] = work(j)
        return results
    ctx = mp.get_context('spawn')
    with cf.ProcessPoolExecutor(max_workers=procs, mp_context=ctx) as ex:
        for r in ex.map(work, jobs, chunksize=max(1, len(jobs) // (procs * 4))):
            results[r['name']] = r
    return results
