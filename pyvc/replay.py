"""./check replay <file>: re-run the recorded native replay of a violated obligation against the real code in /repo."""
import json
import sys
from .run import run_native


def main():
    rep = json.load(open(sys.argv[1]))
    print('obligation:', rep.get('obligation'))
    print('verdict   :', rep.get('verdict'))
    code = rep.get('replay_code')
    if not code:
        print('no native replay recorded (no-failing-input-found); solver output:', rep.get('solver'))
        sys.exit(1)
    res = run_native(code)
    print(json.dumps(res, indent=1))
    sys.exit(1 if res.get('fails') else 0)


if __name__ == '__main__':
    main()
