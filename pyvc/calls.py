"""Calls: builtins, methods of builtin containers, spec-only functions, contract application (modular), closures."""
import ast
import z3
from .ty import *
from .state import State, dtype, key_alloc, key_card

I = z3.IntSort()

PURE_BUILTINS = {'repr', 'len', 'range', 'isinstance', 'int', 'str', 'bool', 'min', 'max', 'abs', 'all', 'any', 'divmod', 'tuple',
                 'old', 'implies', 'fresh', 'seq', 'dom', 'members', 'unchanged', 'type', 'iff', 'card', 'content', 'ite', 'is_none', 'val', 'prefix', 'cast', 'upd', 'elements', 'elements_if', 'dom', 'mapattr', 'content', 'truthy'}
STR_METHODS = {'isupper': BOOL, 'islower': BOOL, 'upper': STR, 'lower': STR, 'startswith': BOOL, 'endswith': BOOL,
               'count': INT, 'isidentifier': BOOL, 'isdigit': BOOL, 'strip': STR, 'lstrip': STR, 'rstrip': STR,
               'encode': STR, 'decode': STR, 'find': INT, 'isalnum': BOOL, 'isalpha': BOOL, 'replace': STR, 'join': STR}


def _unsup(msg, node=None):
    from .engine import Unsupported
    raise Unsupported('%s (line %s)' % (msg, getattr(node, 'lineno', '?')))


class CallMixin:
    # ------------------------------------------------------------------ purity (syntactic)
    def call_is_pure(self, n):
        f = n.func
        if isinstance(f, ast.Name):
            if f.id in PURE_BUILTINS or f.id in self.reg.specfuns:
                return True
            r = self.resolve_name(f.id)
            if r is not None and r[0] == 'contract':
                return self.reg.contracts[r[1]].pure
            if r is not None and r[0] == 'dispatch':
                return all(self.reg.contracts[t].pure for t in r[1].values())
            return False
        if isinstance(f, ast.Attribute):
            if f.attr in STR_METHODS or f.attr in ('keys', 'values', 'items', 'get', 'rindex', 'index'):
                return f.attr not in ('rindex', 'index')
            # a method whose every declared contract is pure
            cs = [c for t, c in self.reg.contracts.items() if t.endswith('.' + f.attr) or t.endswith(':' + f.attr)]
            if cs and all(c.pure for c in cs):
                return True
        return False

    # ------------------------------------------------------------------ dispatcher
    def ev_Call(self, e, st):
        f = e.func

        if isinstance(f, ast.Name):
            name = f.id
            if name in st.env and not isinstance(st.env[name], SeqV) and st.env[name].ty.kind in ('any', 'obj', 'opt'):
                yield from self.call_value(st.env[name], e, st)
                return
            if name in self.closures and name not in st.env:
                yield from self.call_closure(self.closures[name], e, st)
                return
            if name in self.reg.specfuns:
                args = [self.ev1(a, st) for a in e.args] if self.specmode else None
                if args is None:
                    for vs, s in self.ev_many(e.args, st):
                        yield self.apply_specfun(self.reg.specfuns[name], vs, s), s
                else:
                    yield self.apply_specfun(self.reg.specfuns[name], args, st), st
                return
            m = getattr(self, 'bi_' + name, None)
            r = self.resolve_name(name)
            if r is not None:
                if r[0] == 'dispatch':
                    # one constructor, several meanings selected by its literal first argument (Tree('expansion', ..) / Tree('expansions', ..))
                    if not (e.args and isinstance(e.args[0], ast.Constant) and e.args[0].value in r[1]):
                        _unsup('call to %s: first argument is not one of the literal tags %s' % (name, sorted(r[1])), e)
                    r = ('contract', self.c.ghost.get('callee:' + self.call_ordinal(e), r[1][e.args[0].value]))
                if r[0] == 'contract':
                    c = self.reg.contracts[r[1]]
                    if c.pure and c.assumed and not self.specmode and not e.keywords and all(self.is_pure(a) for a in e.args) \
                            and any(isinstance(a, (ast.List, ast.BinOp, ast.ListComp)) for a in e.args):
                        # temporaries built only to be passed to a pure function are mathematical sequences, not heap objects
                        self.specmode += 1
                        self.code_as_spec = getattr(self, 'code_as_spec', 0) + 1
                        try:
                            vs = [self.ev1(a, st) for a in e.args]
                        finally:
                            self.specmode -= 1
                            self.code_as_spec -= 1
                        yield from self.apply_contract(c, vs, {}, st, e)
                        return
                    for (vs, kw), s in self.ev_args(e, st):
                        yield from self.apply_contract(c, vs, kw, s, e)
                    return
                if r[0] == 'class':
                    yield from self.construct(r[1], e, st)
                    return
            if m is not None:
                yield from m(e, st)
                return
            if name in self.reg.classes:
                yield from self.construct(name, e, st)
                return
            _unsup('call to %s: no contract' % name, e)
        if isinstance(f, ast.Attribute):
            # qualified static names first (Token.new_borrow_pos, module.func)
            q = ast.unparse(f)
            r = self.resolve_name(q)
            if r is not None and r[0] == 'contract':
                c = self.reg.contracts[r[1]]
                if c.kind == 'method' and not (isinstance(f.value, ast.Name) and f.value.id not in st.env and f.value.id in self.reg.classes):
                    # an explicitly chosen contract for a bound-method call: the receiver is the first argument
                    # (Class.method(obj, ...) passes the receiver itself)
                    for recv, s0 in self.ev(f.value, st):
                        for (vs, kw), s in self.ev_args(e, s0):
                            yield from self.apply_contract(c, [recv] + vs, kw, s, e)
                    return
                for (vs, kw), s in self.ev_args(e, st):
                    yield from self.apply_contract(c, vs, kw, s, e)
                return
            if q == 'object.__setattr__' and len(e.args) == 3 and isinstance(e.args[1], ast.Constant) and isinstance(e.args[1].value, str):
                # frozen dataclass initialisation: object.__setattr__(obj, 'name', value) is a plain attribute store
                for (o, v), s in self.ev_many([e.args[0], e.args[2]], st):
                    self.setattr(o, e.args[1].value, v, s, e)
                    yield SV(NONE, NONEV), s
                return
            if isinstance(f.value, ast.Name) and f.value.id in self.reg.classes and f.value.id not in st.env:
                c = self.reg.find_method(f.value.id, f.attr)
                if c is not None:
                    for (vs, kw), s in self.ev_args(e, st):
                        yield from self.apply_contract(c, vs, kw, s, e)
                    return
            for recv, s in self.ev(f.value, st):
                yield from self.call_method(recv, f.attr, e, s)
            return
        if isinstance(f, ast.Call) and isinstance(f.func, ast.Name) and f.func.id == 'type' and len(f.args) == 1:
            # type(x)(...): the class of x; resolved statically from the declared type (no subclassing assumed - stated in evidence)
            tv = self.ev1(f.args[0], st) if self.is_pure(f.args[0]) else None
            if tv is not None and not isinstance(tv, SeqV) and tv.ty.kind == 'obj':
                yield from self.construct(tv.ty.args[0], e, st)
                return
        # any other callee expression (e.g. table[key](x)): a first-class value
        for fv, s in self.ev(f, st):
            yield from self.call_value(fv, e, s)
        return

    def ev_args(self, e, st):
        exprs = list(e.args) + [k.value for k in e.keywords]
        if any(isinstance(a, ast.Starred) for a in e.args):
            _unsup('*args call', e)
        for vs, s in self.ev_many(exprs, st):
            pos = vs[:len(e.args)]
            # f(**d): the mapping is handed to the callee's `kwargs` parameter as a whole
            kw = {(k.arg if k.arg is not None else 'kwargs'): v for k, v in zip(e.keywords, vs[len(e.args):])}
            yield (pos, kw), s

    # ------------------------------------------------------------------ builtins
    def bi_len(self, e, st):
        for v, s in self.ev(e.args[0], st):
            yield SV(INT, self.length(v, s, e)), s

    def length(self, v, st, node=None):
        if isinstance(v, SeqV): return v.n
        k = v.ty.kind
        if k == 'opt':
            self.check(st, z3.Not(opt_is_none(v)), 'TypeError', 'none', node)
            return self.length(opt_val(v), st, node)
        if k == 'list':
            self.assume_heap_typing(st, st.llen(v.z) >= 0)
            return st.llen(v.z)
        if k == 'str': return z3.Length(v.z)
        if k == 'text': return self.text_len(v.z)
        if k == 'tuple': return z3.IntVal(len(v.ty.args))
        if k == 'sized': return v.z
        if k in ('dict', 'set'): return self.card(v, st)
        if k == 'obj':
            m = self.reg.find_method(v.ty.args[0], '__len__')
            if m is not None:
                res = list(self.apply_contract(m, [v], {}, st, node))
                return res[0][0].z
        _unsup('len of %r' % (v.ty,), node)

    def bi_card(self, e, st):
        yield from self.bi_len(e, st)

    def bi_divmod(self, e, st):
        for (a, b), s in self.ev_many(e.args, st):
            self.check(s, b.z != 0, 'ZeroDivisionError', 'div0', e)
            q, m = self.floordivmod(a.z, b.z, s)
            yield mk_tuple(TTuple(INT, INT), [q, m]), s

    def bi_isinstance(self, e, st):
        for v, s in self.ev(e.args[0], st):
            yield SV(BOOL, self.isinstance(v, e.args[1], s, e)), s

    def isinstance(self, v, cnode, st, node):
        names = [x for x in (cnode.elts if isinstance(cnode, ast.Tuple) else [cnode])]
        res = []
        for n in names:
            cn = n.id if isinstance(n, ast.Name) else n.attr
            res.append(self.isinstance1(v, cn, st, node))
        return z3.Or(*res) if len(res) > 1 else res[0]

    def class_alias(self, cn):
        r = self.resolve_name(cn) if not self.specmode else None
        return r[1] if r is not None and r[0] == 'class' else cn

    def isinstance1(self, v, cn, st, node):
        cn = self.class_alias(cn)
        if isinstance(v, SeqV):
            return z3.BoolVal(cn in ('list', 'Sequence'))
        k = v.ty.kind
        prim = {'int': ['int', 'bool'], 'str': ['str'], 'bytes': [], 'list': ['list'], 'dict': ['dict'], 'set': ['set'],
                'tuple': ['tuple'], 'bool': ['bool'], 'frozenset': []}
        if k == 'opt':
            return z3.And(z3.Not(opt_is_none(v)), self.isinstance1(opt_val(v), cn, st, node))
        if cn in prim and k not in ('any', 'obj', 'text'):
            return z3.BoolVal(k in prim[cn])
        if k == 'none':
            return z3.BoolVal(False)
        if cn in self.reg.classes:
            if k == 'obj':
                subs = self.reg.subclasses(cn)
                return z3.Or(*[dtype(v.z) == self.reg.classes[c].cid for c in subs]) if subs else z3.BoolVal(False)
            if k == 'any':
                return z3.Function('any_is_' + cn, AnyS, z3.BoolSort())(v.z)
            return z3.BoolVal(False)
        if k == 'any':
            return z3.Function('any_is_' + cn, AnyS, z3.BoolSort())(v.z)
        if k == 'text' and cn in ('str', 'bytes'):
            isb = self.reg.specfuns['ISBYTES'].z3fun(v.z) if 'ISBYTES' in self.reg.specfuns else z3.Function('text_is_bytes', TextS, z3.BoolSort())(v.z)
            return isb if cn == 'bytes' else z3.Not(isb)
        if k == 'obj':
            return z3.BoolVal(False)
        _unsup('isinstance(%r, %s)' % (v.ty, cn), node)

    def bi_int(self, e, st):
        for v, s in self.ev(e.args[0], st):
            if v.ty.kind in ('int', 'bool'):
                yield self.coerce(v, INT, s), s
            elif v.ty.kind == 'str':
                yield SV(INT, z3.StrToInt(v.z)), s
            elif v.ty.kind == 'obj':
                m = self.reg.find_method(v.ty.args[0], '__int__')
                if m is None:
                    _unsup('int() of %r' % (v.ty,), e)
                yield from self.apply_contract(m, [v], {}, s, e)
            elif v.ty.kind == 'any':
                # int() of a dynamically typed value: an uninterpreted function of the value (ValueError is not modelled: stated by the contract)
                yield SV(INT, z3.Function('int_of_any', AnyS, I)(v.z)), s
            else:
                _unsup('int() of %r' % (v.ty,), e)

    def bi_map(self, e, st):
        """map(int, xs): the element-wise image as a mathematical sequence (only consumed by unpacking / iteration)"""
        if len(e.args) != 2 or not (isinstance(e.args[0], ast.Name) and e.args[0].id == 'int'):
            _unsup('map() other than map(int, xs)', e)
        for xs, s in self.ev(e.args[1], st):
            sq = self.seq_of(xs, s)
            if sq.elem.kind != 'any':
                _unsup('map(int, seq of %r)' % (sq.elem,), e)
            arr = fresh('map', z3.ArraySort(I, I))
            i = z3.Int('i!map')
            f = z3.Function('int_of_any', AnyS, I)
            s.assume(z3.ForAll([i], z3.Implies(z3.And(0 <= i, i < sq.n), arr[i] == f(sq.arr[i])), patterns=[arr[i]]))
            yield SeqV(INT, arr, sq.n), s

    def bi_bool(self, e, st):
        for v, s in self.ev(e.args[0], st):
            yield SV(BOOL, self.truthy(v, s)), s

    def bi_str(self, e, st):
        for v, s in self.ev(e.args[0], st):
            if v.ty.kind == 'str':
                yield v, s
            elif v.ty.kind == 'int':
                yield SV(STR, z3.If(v.z >= 0, z3.IntToStr(v.z), z3.Concat(z3.StringVal('-'), z3.IntToStr(-v.z)))), s
            else:
                f = z3.Function('str_of_' + sort_name(sort_of(v.ty)), sort_of(v.ty), z3.StringSort())
                yield SV(STR, f(v.z)), s

    def bi_repr(self, e, st):
        for v, s in self.ev(e.args[0], st):
            if isinstance(v, SeqV):
                _unsup('repr of a sequence', e)
            f = z3.Function('repr_' + sort_name(sort_of(v.ty)), sort_of(v.ty), z3.StringSort())
            yield SV(STR, f(v.z)), s

    def bi_min(self, e, st):
        for vs, s in self.ev_many(e.args, st):
            res = vs[0].z
            for v in vs[1:]:
                res = z3.If(v.z < res, v.z, res)
            yield SV(INT, res), s

    def bi_getattr(self, e, st):
        """getattr(x, 'name', default) with a literal name: the attribute if x has it, else the default (None has no attributes)"""
        if len(e.args) != 3 or not isinstance(e.args[1], ast.Constant):
            _unsup('getattr without literal name and default', e)
        for (x, d), s in self.ev_many([e.args[0], e.args[2]], st):
            attr = e.args[1].value
            if not isinstance(x, SeqV) and x.ty.kind == 'opt' and x.ty.args[0].kind == 'obj':
                inner = list(self.getattr(opt_val(x), attr, s.copy(), e))[0][0] if self.reg.find_field(x.ty.args[0].args[0], attr) or \
                    any(attr in self.reg.classes[c].fields for c in self.reg.subclasses(x.ty.args[0].args[0])) else None
                if inner is None:
                    yield d, s
                    continue
                ty = self.join_types([inner.ty, d.ty])
                yield SV(ty, z3.If(opt_is_none(x), self.coerce(d, ty, s).z, self.coerce(inner, ty, s).z)), s
            elif not isinstance(x, SeqV) and x.ty.kind == 'obj':
                f = self.reg.find_field(x.ty.args[0], attr)
                if f and f[0] == 'field' and attr in self.reg.classes[f[1]].dynamic:
                    cur = self.dyn_read(x, attr, s, e)
                    ty = self.join_types([cur.ty.args[0], d.ty])
                    yield SV(ty, z3.If(opt_is_none(cur), self.coerce(d, ty, s).z, self.coerce(opt_val(cur), ty, s).z)), s
                elif f:
                    yield from self.getattr(x, attr, s, e)
                else:
                    yield d, s
            else:
                _unsup('getattr on %r' % (x.ty,), e)

    def dyn_read(self, x, attr, s, e):
        self._dyn_probe = getattr(self, '_dyn_probe', 0) + 1
        try:
            return list(self.getattr(x, attr, s, e))[0][0]
        finally:
            self._dyn_probe -= 1

    def bi_hasattr(self, e, st):
        """hasattr(x, 'name') with a literal name, for attributes declared `dynamic` (None models absence)"""
        if len(e.args) != 2 or not isinstance(e.args[1], ast.Constant):
            _unsup('hasattr without literal name', e)
        attr = e.args[1].value
        for x, s in self.ev(e.args[0], st):
            if isinstance(x, SeqV) or x.ty.kind != 'obj':
                _unsup('hasattr on %r' % (getattr(x, 'ty', None),), e)
            f = self.reg.find_field(x.ty.args[0], attr)
            if not (f and f[0] == 'field' and attr in self.reg.classes[f[1]].dynamic):
                _unsup('hasattr of an attribute not declared dynamic', e)
            yield SV(BOOL, z3.Not(opt_is_none(self.dyn_read(x, attr, s, e)))), s

    def bi_id(self, e, st):
        for v, s in self.ev(e.args[0], st):
            if isinstance(v, SeqV) or not v.ty.is_ref:
                _unsup('id() of a non-object', e)
            idf = z3.Function('id_of', Ref, I)
            a_, b_ = z3.Consts('r!ia r!ib', Ref)
            s.assume(z3.ForAll([a_, b_], z3.Implies(idf(a_) == idf(b_), a_ == b_), patterns=[z3.MultiPattern(idf(a_), idf(b_))]))   # ids of live objects are distinct
            yield SV(INT, idf(v.z)), s

    def bi_sorted(self, e, st):
        """sorted(xs, key=attrgetter('p') | lambda): a fresh list, permutation of xs ordered by the key (assumed builtin contract)"""
        kw = {k.arg: k.value for k in e.keywords}
        key = kw.get('key')
        if len(e.args) != 1 or key is None:
            _unsup('sorted without key', e)
        if isinstance(key, ast.Call) and isinstance(key.func, ast.Name) and key.func.id == 'attrgetter' and len(key.args) == 1 and isinstance(key.args[0], ast.Constant):
            lam = ast.parse('lambda _x: _x.%s' % key.args[0].value, mode='eval').body
        elif isinstance(key, ast.Lambda):
            lam = key
        else:
            _unsup('sorted key form', e)
        for src, s in self.ev(e.args[0], st):
            if isinstance(src, SeqV) or src.ty.kind not in ('list', 'set'):
                sq = self.seq_of(src, s)
            elif src.ty.kind == 'set':
                sq = self.enumeration(('set', src), s)
            else:
                sq = s.list_seq(src)
            lst = self.new_list(s, sq.elem, sq.arr, sq.n, 'sorted')
            call = ast.Call(func=ast.Attribute(value=ast.Name(id='_tmp', ctx=ast.Load()), attr='sort', ctx=ast.Load()), args=[],
                            keywords=[ast.keyword(arg='key', value=lam)] + [k for k in e.keywords if k.arg == 'reverse'])
            ast.copy_location(call, e)
            ast.fix_missing_locations(call)
            for _, s2 in self.m_list_sort(lst, call, s):
                yield lst, s2

    def bi_max(self, e, st):
        if len(e.args) == 1 and isinstance(e.args[0], (ast.GeneratorExp, ast.ListComp)):
            # max over a comprehension: an upper bound that is attained; ValueError on an empty one
            gexp = e.args[0]
            gen = gexp.generators[0]
            vars_, rng, env, sq = self.bind_comprehension(gen, st)
            s2 = st.copy()
            s2.env.update(env)
            was = self.specmode
            self.specmode += 1
            try:
                elt = self.ev1(gexp.elt, s2)
                conds = [self.truthy(self.ev1(c, s2), s2) for c in gen.ifs]
            finally:
                self.specmode = was
            m = fresh('max', I)
            nonempty = z3.Exists(vars_, z3.And(rng, *conds))
            self.check(st, nonempty, 'ValueError', 'max.empty', e)
            st.assume(z3.ForAll(vars_, z3.Implies(z3.And(rng, *conds), elt.z <= m)), z3.Exists(vars_, z3.And(rng, *conds, elt.z == m)))
            yield SV(INT, m), st
            return
        for vs, s in self.ev_many(e.args, st):
            res = vs[0].z
            for v in vs[1:]:
                res = z3.If(v.z > res, v.z, res)
            yield SV(INT, res), s

    def bi_abs(self, e, st):
        for v, s in self.ev(e.args[0], st):
            yield SV(INT, z3.If(v.z < 0, -v.z, v.z)), s

    def bi_all(self, e, st):
        a = e.args[0]
        if isinstance(a, (ast.GeneratorExp, ast.ListComp)):
            yield SV(BOOL, self.quantified(a, st, True)), st
            return
        _unsup('all() of non-comprehension', e)

    def bi_any(self, e, st):
        a = e.args[0]
        if isinstance(a, (ast.GeneratorExp, ast.ListComp)):
            yield SV(BOOL, self.quantified(a, st, False)), st
            return
        _unsup('any() of non-comprehension', e)

    def bi_list(self, e, st):
        if not e.args:
            elem = getattr(e, '_elem_hint', None) or ANY
            yield self.new_list(st, elem, fresh('empty', z3.ArraySort(I, sort_of(elem))), z3.IntVal(0)), st
            return
        for v, s in self.ev(e.args[0], st):
            sq = self.seq_of(v, s)
            yield (sq if self.specmode else self.new_list(s, sq.elem, sq.arr, sq.n, 'copy')), s

    def bi_copy(self, e, st):
        for v, s in self.ev(e.args[0], st):
            if not isinstance(v, SeqV) and v.ty.kind == 'list':
                sq = s.list_seq(v)
                yield self.new_list(s, sq.elem, sq.arr, sq.n, 'copy'), s
            elif not isinstance(v, SeqV) and v.ty.kind == 'opt' and v.ty.args[0].kind == 'obj':
                # copy(None) is None
                sn, so = s.copy(), s
                sn.assume(opt_is_none(v))
                yield v, sn
                so.assume(z3.Not(opt_is_none(v)))
                for r, s3 in self.copy_obj(opt_val(v), so, e):
                    yield self.coerce(r, v.ty, s3), s3
            elif not isinstance(v, SeqV) and v.ty.kind == 'obj':
                yield from self.copy_obj(v, s, e)
            else:
                _unsup('copy() of %r' % (v.ty,), e)

    def copy_obj(self, o, st, e):
        m = self.reg.find_method(o.ty.args[0], '__copy__')
        if m is not None:
            yield from self.apply_contract(m, [o], {}, st, e)
            return
        # copy.copy default: a fresh instance of the same class with the same attribute values (shallow)
        cname = o.ty.args[0]
        d = self.reg.classes[cname]
        r = st.new_ref(cname.lower() + '_copy', d.cid)
        for c in self.reg.mro(cname):
            for fname, fty in self.reg.classes[c].fields.items():
                st.fset(r, c, fname, sort_of(fty), st.fld(o.z, c, fname, sort_of(fty)))
            for fname, fty in self.reg.classes[c].consts.items():
                fn = z3.Function('const_%s_%s' % (c, fname), Ref, sort_of(fty))
                st.assume(fn(r) == fn(o.z))
        yield SV(o.ty, r), st

    def bi_deepcopy(self, e, st):
        for v, s in self.ev(e.args[0], st):
            c = self.reg.contracts.get('deepcopy/%s' % ('list' if (not isinstance(v, SeqV) and v.ty.kind == 'list') else 'obj'))
            if c is None:
                _unsup('deepcopy without builtin contract', e)
            yield from self.apply_contract(c, [v], {}, s, e)

    def bi_tuple(self, e, st):
        for v, s in self.ev(e.args[0], st):
            if not isinstance(v, SeqV) and v.ty.kind == 'any':
                yield SV(ANY, z3.Function('tuple_of_any', AnyS, AnyS)(v.z)), s       # opaque; only compared
            else:
                yield self.seq_of(v, s), s

    # ---- spec-only
    def bi_old(self, e, st):
        """old(e): e evaluated in the pre-state heap; names are the contract's parameters (callee bindings at a call site,
        entry values for the function's own contract); bound variables and result/exc/out stay visible"""
        if not self.specmode:
            _unsup('old() in code', e)
        o = self.spec_old
        scratch = o.copy()
        explicit = getattr(self, 'spec_env', None)
        if explicit is not None:
            scratch.env = dict(explicit)
        for k, v in st.env.items():
            if k not in scratch.env:
                scratch.env[k] = v
        n0 = len(scratch.pc)
        v = self.ev1(e.args[0], scratch)
        st.assume(*scratch.pc[n0:])
        yield v, st

    def quant_vars(self, st):
        return st.tags.get('qvars', [])

    def bi_implies(self, e, st):
        a, b = [self.truthy(self.ev1(x, st), st) for x in e.args]
        yield SV(BOOL, z3.Implies(a, b)), st

    def bi_iff(self, e, st):
        a, b = [self.truthy(self.ev1(x, st), st) for x in e.args]
        yield SV(BOOL, a == b), st

    def bi_ite(self, e, st):
        c = self.truthy(self.ev1(e.args[0], st), st)
        a, b = self.ev1(e.args[1], st), self.ev1(e.args[2], st)
        ty = self.join_types([a.ty, b.ty])
        yield SV(ty, z3.If(c, self.coerce(a, ty, st).z, self.coerce(b, ty, st).z)), st

    def bi_fresh(self, e, st):
        v = self.ev1(e.args[0], st)
        old_alloc = self.spec_old.H(key_alloc())
        yield SV(BOOL, z3.And(z3.Not(z3.Select(old_alloc, v.z)), st.alloc(v.z), v.z != NULL)), st

    def bi_seq(self, e, st):
        v = self.ev1(e.args[0], st)
        yield self.seq_of(v, st), st

    def bi_prefix(self, e, st):
        """prefix(xs, k): the first k elements (spec only; meaningful for 0 <= k <= len(xs))"""
        v = self.seq_of(self.ev1(e.args[0], st), st)
        k = self.ev1(e.args[1], st)
        yield SeqV(v.elem, v.arr, k.z), st

    def bi_cast(self, e, st):
        """cast(x, ClassName): view a dynamically typed value as an instance (spec only; guard with isinstance)"""
        v = self.ev1(e.args[0], st)
        cn = e.args[1].id
        if cn == 'any':
            yield self.to_any(v), st
            return
        if cn in ('int', 'str', 'bool'):
            yield self.from_any(v, {'int': INT, 'str': STR, 'bool': BOOL}[cn]) if v.ty.kind == 'any' else v, st
            return
        if v.ty.kind == 'any':
            yield self.from_any(v, TObj(cn)), st
        else:
            yield SV(TObj(cn), (opt_val(v) if v.ty.kind == 'opt' else v).z), st

    def bi_upd(self, e, st):
        """upd(xs, i, v): functional update of a mathematical sequence (spec only)"""
        xs = self.seq_of(self.ev1(e.args[0], st), st)
        i = self.ev1(e.args[1], st)
        v = self.coerce(self.ev1(e.args[2], st), xs.elem, st)
        yield SeqV(xs.elem, z3.Store(xs.arr, i.z, v.z), xs.n), st

    def bi_elements(self, e, st):
        """elements(xs) in a modifies clause: every object that is an element of the list (ownership of contents)"""
        yield self.seq_of(self.ev1(e.args[0], st), st), st

    def bi_elements_if(self, e, st):
        c = self.truthy(self.ev1(e.args[0], st), st)
        sq = self.seq_of(self.ev1(e.args[1], st), st)
        yield SeqV(sq.elem, sq.arr, z3.If(c, sq.n, 0)), st

    def bi_dom(self, e, st):
        """dom(d): the key set of a dict as a value (spec only) - use inside old(...) to talk about the keys at entry"""
        d = self.ev1(e.args[0], st)
        yield SV(Ty('fset', d.ty.args[0]), st.ddom(d.z, sort_of(d.ty.args[0]))), st

    def bi_members(self, e, st):
        """members(s): the membership of a set as a value (spec only) - e.g. bound by a loop `let` to talk about the members at loop entry"""
        d = self.ev1(e.args[0], st)
        yield SV(Ty('fset', d.ty.args[0]), st.smem(d.z, sort_of(d.ty.args[0]))), st

    def bi_content(self, e, st):
        """content(d): the key -> value map of a dict as a value (spec only); content(d)[k] is meaningful for k in dom(d)"""
        d = self.ev1(e.args[0], st)
        yield SV(Ty('fmap', d.ty.args[0], d.ty.args[1]), st.dval(d.z, sort_of(d.ty.args[0]), sort_of(d.ty.args[1]))), st

    def bi_mapattr(self, e, st):
        """mapattr(xs, 'f'): the sequence xs[0].f, xs[1].f, ... (spec only; e.g. the child lists of a list of trees in a modifies clause)"""
        xs = self.seq_of(self.ev1(e.args[0], st), st)
        attr = e.args[1].value
        i = fresh('i_ma', I)
        s2 = st.copy()
        v = list(self.getattr(SV(xs.elem, z3.Select(xs.arr, i)), attr, s2, e))[0][0]
        arr = fresh('mapattr', z3.ArraySort(I, sort_of(v.ty)))
        st.assume(z3.ForAll([i], z3.Implies(z3.And(0 <= i, i < xs.n), arr[i] == v.z), patterns=[arr[i], z3.Select(xs.arr, i)]))
        yield SeqV(v.ty, arr, xs.n), st

    def bi_truthy(self, e, st):
        """truthy(x): bool(x) of the Python value (spec only)"""
        v = self.ev1(e.args[0], st)
        yield SV(BOOL, self.truthy(v, st)), st

    def bi_is_none(self, e, st):
        v = self.ev1(e.args[0], st)
        yield SV(BOOL, self.equal(v, SV(NONE, NONEV), st)), st

    def bi_val(self, e, st):
        v = self.ev1(e.args[0], st)
        yield (opt_val(v) if v.ty.kind == 'opt' else v), st

    def bi_type(self, e, st):
        v = self.ev1(e.args[0], st)
        if v.ty.kind != 'obj':
            _unsup('type() of %r' % (v.ty,), e)
        yield SV(INT, dtype(v.z)), st

    # ------------------------------------------------------------------ methods on builtin types
    def call_method(self, recv, attr, e, st):
        if isinstance(recv, SeqV):
            _unsup('method %s on sequence value' % attr, e)
        k = recv.ty.kind
        if k == 'opt':
            self.check(st, z3.Not(opt_is_none(recv)), 'AttributeError', 'none', e)
            recv = opt_val(recv)
            k = recv.ty.kind
        m = getattr(self, 'm_%s_%s' % (k, attr), None)
        if m is not None:
            yield from m(recv, e, st)
            return
        bc = self.reg.contracts.get('%s.%s' % (k, attr))
        if bc is not None and k != 'obj':
            # builtin container method given by an (assumed) contract in the registry
            for (vs, kw), s in self.ev_args(e, st):
                yield from self.apply_contract(bc, [recv] + vs, kw, s, e)
            return
        if k == 'obj':
            c = self.reg.find_method(recv.ty.args[0], attr)
            if c is None:
                f = self.reg.find_field(recv.ty.args[0], attr)
                if f is not None:       # calling a callable stored in a field
                    for fv, s in self.getattr(recv, attr, st, e):
                        yield from self.call_value(fv, e, s)
                    return
                _unsup('method %s.%s has no contract' % (recv.ty.args[0], attr), e)
            for (vs, kw), s in self.ev_args(e, st):
                if c.kind in ('staticmethod',):
                    yield from self.apply_contract(c, vs, kw, s, e)
                else:
                    yield from self.apply_contract(c, [recv] + vs, kw, s, e)
            return
        if k == 'str' and attr == 'join' and len(e.args) == 1 and isinstance(e.args[0], (ast.GeneratorExp, ast.ListComp)):
            yield self.join_comprehension(recv, e, st), st
            return
        if k == 'str' and attr in STR_METHODS:
            for (vs, kw), s in self.ev_args(e, st):
                yield self.str_method(recv, attr, vs, s, e), s
            return
        if k == 'text':
            for (vs, kw), s in self.ev_args(e, st):
                c = self.reg.contracts.get('text.%s/%d' % (attr, len(vs)))
                if c is None:
                    _unsup('text method %s/%d has no builtin contract' % (attr, len(vs)), e)
                yield from self.apply_contract(c, [recv] + vs, kw, s, e)
            return
        _unsup('method %s on %r' % (attr, recv.ty), e)

    def str_method(self, recv, attr, args, st, node):
        zs = [recv.z] + [a.z for a in args]
        # constant folding on literals: exact CPython semantics
        vals = [z3.simplify(z) for z in zs]
        if all(z3.is_string_value(v) or z3.is_int_value(v) for v in vals):
            pv = [v.as_string() if z3.is_string_value(v) else v.as_long() for v in vals]
            try:
                r = getattr(pv[0], attr)(*pv[1:])
                return self.const(r, node)
            except Exception:
                pass
        if attr == 'startswith' and len(args) == 1 and args[0].ty.kind == 'str':
            return SV(BOOL, z3.PrefixOf(args[0].z, recv.z))
        if attr == 'endswith' and len(args) == 1 and args[0].ty.kind == 'str':
            return SV(BOOL, z3.SuffixOf(args[0].z, recv.z))
        f = z3.Function('str.' + attr, *[z.sort() for z in zs], sort_of(STR_METHODS[attr]))
        res = SV(STR_METHODS[attr], f(*zs))
        if attr == 'count':
            st.assume(res.z >= 0)
        return res

    def join_comprehension(self, sep, e, st):
        """sep.join(f(x) for x in xs if c(x)) as a left fold: J(0) = '', J(i+1) = J(i) [+ sep] + f(xs[i]) if c(xs[i]) else J(i).
        The contract names the closed form of the partial result after _i elements (ghost 'join:<ordinal>'); it is proved by
        induction (join-init / join-step obligations) and then used for the result."""
        gexp = e.args[0]
        if len(gexp.generators) != 1:
            _unsup('nested comprehension in join', e)
        sepz = z3.simplify(sep.z)
        if not (z3.is_string_value(sepz) and sepz.as_string() == ''):
            _unsup('join with a non-empty separator', e)
        gen = gexp.generators[0]
        vars_, rng, env, sq = self.bind_comprehension(gen, st)
        if sq is None:
            _unsup('join over a non-sequence', e)
        seq, i = sq
        s2 = st.copy()
        s2.env.update(env)
        was = self.specmode
        self.specmode += 1
        try:
            conds = [self.truthy(self.ev1(c, s2), s2) for c in gen.ifs]
            elt = self.ev1(gexp.elt, s2)
        finally:
            self.specmode = was
        if elt.ty.kind != 'str':
            _unsup('join of non-strings', e)
        key = 'join:' + self.call_ordinal(e)
        closed = self.c.ghost.get(key)
        if closed is None:
            _unsup('join over a comprehension needs the closed form of its partial results (ghost %r)' % key, e)
        term = z3.If(z3.And(*conds), elt.z, z3.StringVal('')) if conds else elt.z

        def closed_at(k, state):
            sc = state.copy()
            sc.env['_i'] = SV(INT, k)
            v, sides = self.spec(closed, sc)
            return v.z, sides
        c0, sd0 = closed_at(z3.IntVal(0), st)
        self.oblige('join-init.' + self.label('join', e), st, c0 == z3.StringVal(''), e, kind='inv-init', hyps_extra=sd0, text='%s at _i = 0 is empty' % closed)
        ci, sdi = closed_at(i, st)
        cn, sdn = closed_at(i + 1, st)
        self.oblige('join-step.' + self.label('join', e), st, z3.Implies(rng, cn == z3.Concat(ci, term)), e, kind='inv-keep', hyps_extra=sdi + sdn,
                    text='%s at _i + 1 is the value at _i followed by the element (if selected)' % closed)
        res, sdr = closed_at(seq.n, st)
        st.assume(*sdr)
        return SV(STR, res)

    # list
    def m_list_append(self, recv, e, st):
        for v, s in self.ev(e.args[0], st):
            self.check_write(s, recv.z, e, 'append')
            es = sort_of(recv.ty.args[0])
            n = s.llen(recv.z)
            old_arr = s.larr(recv.z, es)
            vz = self.coerce(v, recv.ty.args[0], s).z
            if self.c.ghost.get('append_named'):
                # the new content is a named array (not a Store term): its defining facts contain the ground term app[n], which
                # existential goals about membership need as an instantiation candidate
                new_arr = fresh('app', z3.ArraySort(I, es))
                i_ = z3.Int('i!app')
                s.assume(z3.Select(new_arr, n) == vz,
                         z3.ForAll([i_], z3.Implies(z3.And(0 <= i_, i_ < n), z3.Select(new_arr, i_) == z3.Select(old_arr, i_)), patterns=[z3.Select(new_arr, i_)]))
                try:
                    s.assume(z3.ForAll([i_], z3.Implies(z3.And(0 <= i_, i_ < n), z3.Select(new_arr, i_) == z3.Select(old_arr, i_)), patterns=[z3.Select(old_arr, i_)]))
                except z3.Z3Exception:
                    pass
            else:
                new_arr = z3.Store(old_arr, n, vz)
            s.lset(recv.z, es, new_arr, n + 1)
            self.seq_lemmas(SeqV(recv.ty.args[0], new_arr, n + 1), SeqV(recv.ty.args[0], old_arr, n), n, s)
            yield SV(NONE, NONEV), s

    def m_list_insert(self, recv, e, st):
        for (iv, v), s in self.ev_many(e.args, st):
            iz = z3.simplify(iv.z)
            if not (z3.is_int_value(iz) and iz.as_long() == 0):
                _unsup('list.insert at a non-zero index', e)
            self.check_write(s, recv.z, e, 'insert')
            elem = recv.ty.args[0]
            one = SeqV(elem, z3.Store(fresh('ins', z3.ArraySort(I, sort_of(elem))), 0, self.coerce(v, elem, s).z), z3.IntVal(1))
            res = self.seq_concat(one, s.list_seq(recv), s)
            s.lset(recv.z, sort_of(elem), res.arr, res.n)
            yield SV(NONE, NONEV), s

    def m_list_sort(self, recv, e, st):
        """xs.sort(key=lambda x: ..., reverse=const): assumed builtin contract - the new content is a permutation of the old one and is
        ordered by the key (no element's key is strictly smaller than the key of an element before it).  The key is the real lambda,
        evaluated symbolically on arbitrary elements, so a changed key changes the obligation."""
        kw = {k.arg: k.value for k in e.keywords}
        if e.args or 'key' not in kw or not isinstance(kw['key'], ast.Lambda) or len(kw['key'].args.args) != 1:
            _unsup('list.sort without a one-argument key lambda', e)
        rev = False
        if 'reverse' in kw:
            if not isinstance(kw['reverse'], ast.Constant):
                _unsup('sort(reverse=<non constant>)', e)
            rev = bool(kw['reverse'].value)
        lam = kw['key']
        if not self.is_pure(lam.body):
            _unsup('impure sort key', e)
        self.check_write(st, recv.z, e, 'sort')
        elem = recv.ty.args[0]
        es = sort_of(elem)
        old = st.list_seq(recv)
        new = fresh('sorted', z3.ArraySort(I, es))
        i, j = z3.Ints('i!so j!so')

        def key(z):
            s2 = st.copy()
            s2.env[lam.args.args[0].arg] = SV(elem, z)
            self.assume_typed(s2.env[lam.args.args[0].arg], s2, depth=0)
            was = self.specmode
            self.specmode += 1
            try:
                return self.ev1(lam.body, s2), s2
            finally:
                self.specmode = was
        (ki, si), (kj, sj) = key(z3.Select(new, i)), key(z3.Select(new, j))
        smaller = self.compare(ast.Gt() if rev else ast.Lt(), kj, ki, st, e)      # key[j] strictly before key[i] in the requested order
        tids = getattr(self, '_typing_ids', set())
        sides = [f for f in si.pc[len(st.pc):] + sj.pc[len(st.pc):] if f.get_id() not in tids]   # facts about the values the key reads (typing facts hold anyway)
        st.assume(z3.ForAll([i, j], z3.Implies(z3.And(0 <= i, i < j, j < old.n), z3.Implies(z3.And(*sides), z3.Not(smaller))) if sides else
                            z3.Implies(z3.And(0 <= i, i < j, j < old.n), z3.Not(smaller))),
                  z3.ForAll([i], z3.Implies(z3.And(0 <= i, i < old.n), z3.Exists([j], z3.And(0 <= j, j < old.n, z3.Select(new, i) == z3.Select(old.arr, j)))), patterns=[z3.Select(new, i)]),
                  z3.ForAll([j], z3.Implies(z3.And(0 <= j, j < old.n), z3.Exists([i], z3.And(0 <= i, i < old.n, z3.Select(new, i) == z3.Select(old.arr, j)))), patterns=[z3.Select(old.arr, j)]))
        st.lset(recv.z, es, new, old.n)
        yield SV(NONE, NONEV), st

    def m_list_pop(self, recv, e, st):
        if e.args:
            _unsup('list.pop(i)', e)
        n = st.llen(recv.z)
        self.check(st, n > 0, 'IndexError', 'pop', e)
        self.check_write(st, recv.z, e, 'pop')
        es = sort_of(recv.ty.args[0])
        v = SV(recv.ty.args[0], z3.Select(st.larr(recv.z, es), n - 1))
        self.assume_typed(v, st, depth=0)
        st.lset(recv.z, es, n=n - 1)
        yield v, st

    def m_list_extend(self, recv, e, st):
        for v, s in self.ev(e.args[0], st):
            self.list_extend(recv, v, s, e)
            yield SV(NONE, NONEV), s

    def seq_cast(self, sq, elem, st):
        """the same sequence viewed at another element type (e.g. [None] * n added to a list of anything)"""
        if sort_of(sq.elem) == sort_of(elem):
            return SeqV(elem, sq.arr, sq.n)
        arr = fresh('cast', z3.ArraySort(I, sort_of(elem)))
        i = z3.Int('i!cs')
        st.assume(z3.ForAll([i], z3.Implies(z3.And(0 <= i, i < sq.n), arr[i] == self.coerce(SV(sq.elem, z3.Select(sq.arr, i)), elem, st).z), patterns=[arr[i]]))
        return SeqV(elem, arr, sq.n)

    def list_extend(self, recv, v, st, node):
        self.check_write(st, recv.z, node, 'extend')
        res = self.seq_concat(st.list_seq(recv), self.seq_cast(self.seq_of(v, st), recv.ty.args[0], st), st)
        st.lset(recv.z, sort_of(recv.ty.args[0]), res.arr, res.n)

    def m_list_copy(self, recv, e, st):
        sq = st.list_seq(recv)
        yield self.new_list(st, sq.elem, sq.arr, sq.n, 'copy'), st

    # dict
    def m_dict_get(self, recv, e, st):
        for (vs, kw), s in self.ev_args(e, st):
            kt, vt = recv.ty.args
            kz = self.coerce(vs[0], kt, s).z
            has = z3.Select(s.ddom(recv.z, sort_of(kt)), kz)
            val = SV(vt, z3.Select(s.dval(recv.z, sort_of(kt), sort_of(vt)), kz))
            self.assume_typed(val, s, depth=0)
            dflt = vs[1] if len(vs) > 1 else SV(NONE, NONEV)
            ty = self.join_types([vt, dflt.ty])
            yield SV(ty, z3.If(has, self.coerce(val, ty, s).z, self.coerce(dflt, ty, s).z)), s

    def m_dict_keys(self, recv, e, st):
        # used as a set-like view in `in` tests / comprehensions
        yield SV(TSet(recv.ty.args[0]), self.keyset(recv, st)), st

    def keyset(self, d, st):
        r = st.new_ref('keys', -3)
        st.sset(r, sort_of(d.ty.args[0]), st.ddom(d.z, sort_of(d.ty.args[0])))
        st.setH(key_card(), z3.Store(st.H(key_card()), r, self.card(d, st)))
        return r

    # set
    def m_set_add(self, recv, e, st):
        for v, s in self.ev(e.args[0], st):
            self.check_write(s, recv.z, e, 'add')
            es = sort_of(recv.ty.args[0])
            xz = self.coerce(v, recv.ty.args[0], s).z
            mem = s.smem(recv.z, es)
            card = self.card(recv, s)
            s.setH(key_card(), z3.Store(s.H(key_card()), recv.z, z3.If(z3.Select(mem, xz), card, card + 1)))
            s.sset(recv.z, es, z3.Store(mem, xz, True))
            yield SV(NONE, NONEV), s

    def m_set_update(self, recv, e, st):
        for v, s in self.ev(e.args[0], st):
            if isinstance(v, SeqV) or v.ty.kind != 'set':
                _unsup('set.update with a non-set argument', e)
            self.check_write(s, recv.z, e, 'update')
            es = sort_of(recv.ty.args[0])
            a, b = s.smem(recv.z, es), s.smem(v.z, es)
            x = z3.Const('x!su', es)
            mem = fresh('mem', z3.ArraySort(es, z3.BoolSort()))
            s.assume(z3.ForAll([x], z3.Select(mem, x) == z3.Or(z3.Select(a, x), z3.Select(b, x))))
            c = fresh('card', I)
            s.assume(c >= self.card(recv, s), c >= self.card(v, s))
            s.sset(recv.z, es, mem)
            s.setH(key_card(), z3.Store(s.H(key_card()), recv.z, c))
            yield SV(NONE, NONEV), s

    def bi_set(self, e, st):
        if e.args:
            for v, s in self.ev(e.args[0], st):
                if not isinstance(v, SeqV) and v.ty.kind == 'dict':
                    yield SV(TSet(v.ty.args[0]), self.keyset(v, s)), s
                elif not isinstance(v, SeqV) and v.ty.kind == 'set':
                    r = s.new_ref('set', -3)
                    es = sort_of(v.ty.args[0])
                    s.sset(r, es, s.smem(v.z, es))
                    s.setH(key_card(), z3.Store(s.H(key_card()), r, self.card(v, s)))
                    yield SV(v.ty, r), s
                else:
                    _unsup('set() of %r' % (v.ty,), e)
            return
        elem = getattr(e, '_elem_hint', None) or self.c.types.get('@set%d' % e.lineno) or STR
        r = st.new_ref('set', -3)
        st.sset(r, sort_of(elem), z3.K(sort_of(elem), z3.BoolVal(False)))
        st.setH(key_card(), z3.Store(st.H(key_card()), r, z3.IntVal(0)))
        yield SV(TSet(elem), r), st

    def ev_Set(self, e, st):
        for vs, s in self.ev_many(e.elts, st):
            elem = self.join_types([v.ty for v in vs], e)
            es = sort_of(elem)
            mem = z3.K(es, z3.BoolVal(False))
            for v in vs:
                mem = z3.Store(mem, self.coerce(v, elem, s).z, True)
            r = s.new_ref('setlit', -3)
            s.sset(r, es, mem)
            s.setH(key_card(), z3.Store(s.H(key_card()), r, z3.IntVal(len(vs)) if len(vs) <= 1 else fresh('card', I)))
            yield SV(TSet(elem), r), s

    def ev_Dict(self, e, st):
        if e.keys:
            _unsup('non-empty dict literal', e)
        t = getattr(e, '_dict_hint', None) or self.c.types.get('@dict%d' % e.lineno)
        if t is None:
            t = TDict(ANY, ANY)        # an empty literal of unknown use: keys and values are dynamically typed
        r = st.new_ref('dict', -2)
        kt, vt = t.args
        st.dset(r, sort_of(kt), sort_of(vt), dom=z3.K(sort_of(kt), z3.BoolVal(False)))
        st.setH(key_card(), z3.Store(st.H(key_card()), r, z3.IntVal(0)))
        yield SV(t, r), st

    def ev_DictComp(self, e, st):
        """{kexpr: vexpr for k, v in d.items()} with pure expressions: the image dict.  Its size is at most that of the source and equal
        to it when the key expression is injective on the source (assumed builtin semantics of comprehensions)."""
        if len(e.generators) != 1 or e.generators[0].ifs:
            _unsup('dict comprehension with filter / nesting', e)
        gen = e.generators[0]
        vars_, rng, env, _ = self.bind_comprehension(gen, st)
        s2 = st.copy()
        s2.env.update(env)
        was = self.specmode
        self.specmode += 1
        try:
            kx, vx = self.ev1(e.key, s2), self.ev1(e.value, s2)
        finally:
            self.specmode = was
        ks, vs = sort_of(kx.ty), sort_of(vx.ty)
        r = st.new_ref('dictcomp', -2)
        dom = fresh('dom', z3.ArraySort(ks, z3.BoolSort()))
        val = fresh('val', z3.ArraySort(ks, vs))
        y = z3.Const('y!dc', ks)
        st.assume(z3.ForAll([y], z3.Select(dom, y) == z3.Exists(vars_, z3.And(rng, kx.z == y))),
                  z3.ForAll(vars_, z3.Implies(rng, z3.Exists([z3.Const('w!dc', vars_[0].sort())], z3.BoolVal(True)))),
                  # a key keeps the value of (one of) its source items; unique when the key expression is injective
                  z3.ForAll([y], z3.Implies(z3.Select(dom, y), z3.Exists(vars_, z3.And(rng, kx.z == y, z3.Select(val, y) == vx.z)))))
        st.dset(r, ks, vs, dom, val)
        c = fresh('card', I)
        src_card = None
        it = gen.iter
        if isinstance(it, ast.Call) and isinstance(it.func, ast.Attribute) and it.func.attr in ('items', 'keys', 'values'):
            d = self.ev1(it.func.value, st)
            if not isinstance(d, SeqV) and d.ty.kind == 'dict':
                src_card = self.card(d, st)
        st.assume(c >= 0)
        if src_card is not None:
            v2 = [z3.Const(str(v) + '!2', v.sort()) for v in vars_]
            kx2 = z3.substitute(kx.z, *zip(vars_, v2))
            rng2 = z3.substitute(rng, *zip(vars_, v2))
            inj = z3.ForAll(vars_ + v2, z3.Implies(z3.And(rng, rng2, kx.z == kx2), z3.And(*[a == b for a, b in zip(vars_, v2)])))
            st.assume(c <= src_card, z3.Implies(inj, c == src_card))
        st.setH(key_card(), z3.Store(st.H(key_card()), r, c))
        yield SV(TDict(kx.ty, vx.ty), r), st

    def ev_SetComp(self, e, st):
        # {elt for x in src if cond}: membership characterised, cardinality unknown (>= 0)
        if len(e.generators) != 1:
            _unsup('nested set comprehension', e)
        gen = e.generators[0]
        vars_, rng, env, _ = self.bind_comprehension(gen, st)
        s2 = st.copy()
        s2.env.update(env)
        was = self.specmode
        self.specmode += 1
        try:
            conds = [self.truthy(self.ev1(c, s2), s2) for c in gen.ifs]
            elt = self.ev1(e.elt, s2)
        finally:
            self.specmode = was
        es = sort_of(elt.ty)
        r = st.new_ref('setcomp', -3)
        mem = fresh('mem', z3.ArraySort(es, z3.BoolSort()))
        y = z3.Const('y!sc', es)
        st.assume(z3.ForAll([y], z3.Select(mem, y) == z3.Exists(vars_, z3.And(rng, *conds, elt.z == y))))
        st.sset(r, es, mem)
        c = fresh('card', I)
        st.assume(c >= 0)
        st.setH(key_card(), z3.Store(st.H(key_card()), r, c))
        yield SV(TSet(elt.ty), r), st

    def simple_elt(self, node):
        return not any(isinstance(n, (ast.Call, ast.List)) for n in ast.walk(node))

    def ev_ListComp(self, e, st):
        # [elt for x in seq] without filter: same length, element-wise image
        if len(e.generators) != 1:
            _unsup('list comprehension with nesting', e)
        gen = e.generators[0]
        if gen.ifs:
            yield self.filter_comp(e, gen, st), st
            return
        vars_, rng, env, sq = self.bind_comprehension(gen, st)
        s2 = st.copy()
        s2.env.update(env)
        impure = not self.is_pure(e.elt)
        if impure and not self.specmode:
            hook = self.c.ghost.get('listcomp@%d' % e.lineno)
            if hook is None:
                _unsup('list comprehension with impure element (needs ghost hook listcomp@%d)' % e.lineno, e)
            yield from hook(self, e, st)
            return
        n0 = len(s2.pc)
        was = self.specmode
        self.specmode += 1
        skolemised = False
        try:
            if sq is None and not self.simple_elt(e.elt):
                # the element builds intermediate values (sequences, results of pure calls): evaluate it with every fresh symbol a
                # function of the bound variable, so that the defining facts can be closed under the quantifier
                try:
                    from .ty import skolem_over
                    with skolem_over(vars_):
                        elt = self.ev1(e.elt, s2)
                    skolemised = True
                except z3.Z3Exception:
                    del s2.pc[n0:]
                    elt = self.ev1(e.elt, s2)
            else:
                elt = self.ev1(e.elt, s2)
        finally:
            self.specmode = was
        if isinstance(elt, SeqV):
            _unsup('list comprehension of sequences', e)
        sides = s2.pc[n0:]
        arr = fresh('comp', z3.ArraySort(I, sort_of(elt.ty)))
        if sq is not None:
            s, i = sq
            n = s.n
            st.assume(z3.ForAll([i], z3.Implies(z3.And(rng, *sides), arr[i] == elt.z), patterns=[arr[i]]))
        else:
            # range(lo, hi): index shift
            v = vars_[0]
            it = gen.iter
            args = [self.ev1(a, st) for a in it.args]
            lo, hi = (z3.IntVal(0), args[0].z) if len(args) == 1 else (args[0].z, args[1].z)
            n = z3.If(hi > lo, hi - lo, 0)
            if skolemised:
                j = z3.Int('j!comp')
                body = z3.substitute(z3.And(*sides, arr[v - lo] == elt.z), (v, lo + j))
                st.assume(z3.ForAll([j], z3.Implies(z3.And(0 <= j, j < n), z3.simplify(body)), patterns=[arr[j]]))
            else:
                st.assume(z3.ForAll([v], z3.Implies(z3.And(rng, *sides), arr[v - lo] == elt.z)))
        res = SeqV(elt.ty, arr, n)
        yield (res if self.specmode else self.new_list(st, elt.ty, arr, n, 'comp')), st

    def filter_comp(self, e, gen, st):
        """[elt for x in xs if cond]: the result is characterised completely by a strictly increasing index map `src` into xs whose image is
        exactly the set of positions where cond holds (so: same elements, same order, nothing dropped, nothing added)"""
        if not (self.is_pure(e.elt) and all(self.is_pure(c) for c in gen.ifs) and self.simple_elt(e.elt) and all(self.simple_elt(c) for c in gen.ifs)):
            _unsup('filtered list comprehension with impure or compound element/condition', e)
        vars_, rng, env, sq = self.bind_comprehension(gen, st)
        if sq is None:
            _unsup('filtered list comprehension over a non-sequence', e)
        s, i = sq
        s2 = st.copy()
        s2.env.update(env)
        n0 = len(s2.pc)
        was = self.specmode
        self.specmode += 1
        try:
            conds = [self.truthy(self.ev1(c, s2), s2) for c in gen.ifs]
            elt = self.ev1(e.elt, s2)
        finally:
            self.specmode = was
        if isinstance(elt, SeqV):
            _unsup('filtered list comprehension of sequences', e)
        # element and condition are attribute/index reads only (simple_elt): what their evaluation adds are heap typing facts, valid for
        # every index in range
        from .exprs import _mentions
        for f in s2.pc[n0:]:
            st.assume(z3.ForAll([i], z3.Implies(rng, f)) if _mentions(f, {i.get_id()}) else f)
        cond = z3.And(*conds)
        n = fresh('flen', I)
        src = fresh('fsrc', z3.ArraySort(I, I))
        inv = fresh('finv', z3.ArraySort(I, I))
        arr = fresh('comp', z3.ArraySort(I, sort_of(elt.ty)))
        k, k2 = z3.Int('k!flt'), z3.Int('k2!flt')
        at = lambda f, ix: z3.substitute(f, (i, ix))
        st.assume(0 <= n, n <= s.n)
        st.assume(z3.ForAll([k], z3.Implies(z3.And(0 <= k, k < n),
                                            z3.And(0 <= src[k], src[k] < s.n, at(cond, src[k]), arr[k] == at(elt.z, src[k]))),
                            patterns=[arr[k], src[k]]))
        st.assume(z3.ForAll([k, k2], z3.Implies(z3.And(0 <= k, k < k2, k2 < n), src[k] < src[k2]), patterns=[z3.MultiPattern(src[k], src[k2])]))
        st.assume(z3.ForAll([i], z3.Implies(z3.And(0 <= i, i < s.n, cond), z3.And(0 <= inv[i], inv[i] < n, src[inv[i]] == i)),
                            patterns=[z3.Select(s.arr, i), inv[i]]))
        res = SeqV(elt.ty, arr, n)
        return res if self.specmode else self.new_list(st, elt.ty, arr, n, 'comp')

    def set_binop(self, op, l, r, st):
        es = sort_of(l.ty.args[0])
        a, b = st.smem(l.z, es), st.smem(r.z, es)
        x = z3.Const('x!sb', es)
        mem = fresh('mem', z3.ArraySort(es, z3.BoolSort()))
        body = {ast.BitOr: z3.Or(z3.Select(a, x), z3.Select(b, x)), ast.BitAnd: z3.And(z3.Select(a, x), z3.Select(b, x)),
                ast.Sub: z3.And(z3.Select(a, x), z3.Not(z3.Select(b, x)))}[type(op)]
        st.assume(z3.ForAll([x], z3.Select(mem, x) == body))
        res = st.new_ref('setop', -3)
        st.sset(res, es, mem)
        c = fresh('card', I)
        st.assume(c >= 0, z3.Implies(c == 0, z3.ForAll([x], z3.Not(z3.Select(mem, x)))),
                  z3.Implies(c > 0, z3.Exists([x], z3.Select(mem, x))))
        st.setH(key_card(), z3.Store(st.H(key_card()), res, c))
        return SV(l.ty, res)

    # ------------------------------------------------------------------ spec functions
    def apply_specfun(self, f, args, st):
        zs = []
        for (pn, pt), a in zip(f.params, args):
            if pt.kind == 'seq':
                a = self.seq_of(a, st)
                zs += [a.arr, a.n]
            else:
                zs.append(self.coerce(a, pt, st).z)
        return SV(f.ret, f.z3fun(*zs))

    # ------------------------------------------------------------------ closures (inlined)
    def call_closure(self, fdef, e, st):
        if any(isinstance(n, (ast.Yield, ast.YieldFrom)) for n in ast.walk(fdef)):
            _unsup('generator closure', e)
        for (vs, kw), s in self.ev_args(e, st):
            saved = dict(s.env)
            params = [a.arg for a in fdef.args.args]
            for p, v in zip(params, vs):
                s.env[p] = v
            for k, v in kw.items():
                s.env[k] = v
            outs = self.block(fdef.body, [s])
            for o in outs:
                if o.kind not in ('next', 'return'):
                    _unsup('abrupt %s out of closure' % o.kind, e)
                val = o.val if o.kind == 'return' else SV(NONE, NONEV)
                # restore caller's view of parameter names; other assignments are nonlocal-visible only if declared nonlocal
                nonlocals = {n for st_ in ast.walk(fdef) if isinstance(st_, ast.Nonlocal) for n in st_.names}
                env2 = dict(saved)
                for n in nonlocals:
                    if n in o.st.env:
                        env2[n] = o.st.env[n]
                o.st.env = env2
                yield val, o.st

    def call_value(self, fv, e, st):
        """call of a first-class value (callback): uninterpreted, effect-free on the modelled heap unless the contract says otherwise"""
        key = 'callv:' + self.call_ordinal(e)
        model = self.c.ghost.get(key)
        if model is None:
            _unsup('call of a first-class value without a callback model (ghost %r)' % key, e)
        # callback model: dict(returns=type, modifies=[arg indexes], assumes=[spec over arg0.., result, old(...)])
        for (vs, kw), s in self.ev_args(e, st):
            pre = s.copy()
            mods = [vs[i] for i in model.get('modifies', [])]
            for i in model.get('modifies_elements', []):
                sq = self.seq_of(vs[i], s)
                if model.get('modifies_elements_if'):
                    g, sides = self.spec_bool(model['modifies_elements_if'], s)
                    s.assume(*sides)
                    sq = SeqV(sq.elem, sq.arr, z3.If(g, sq.n, 0))
                mods.append(sq)
            if mods:
                for mv in mods:
                    if isinstance(mv, SeqV):
                        j = fresh('j_fr', I)
                        el = z3.Select(mv.arr, j)
                        ok = z3.Or(z3.Not(z3.Select(self.entry.H(key_alloc()), el)), *[self.in_mod(el, mm) for mm in self.modset])
                        self.oblige('frame.' + self.label('callback.elements', e), s, z3.Implies(z3.And(0 <= j, j < mv.n), ok), e, kind='frame',
                                    text='callback may write the elements of its argument; each must be fresh or in modifies')
                    else:
                        self.check_write(s, mv.z, e, 'callback')
                self.havoc_after_call(s, pre, mods)
            from .ty import parse_type as _pt
            res = fresh_sv('cb', _pt(model.get('returns', 'any')))
            self.assume_typed(res, s, depth=0)
            env = dict(s.env)
            for i, v in enumerate(vs):
                env['arg%d' % i] = v
            env['fn'] = fv
            for a in model.get('assumes', []):
                self.assume_spec(a, s, env=env, old=pre, result=res)
            for E in model.get('raises', []):
                ex = s.copy()
                self.do_raise(E, None, ex, e)
            yield res, s

    # ------------------------------------------------------------------ constructors
    def construct(self, cname, e, st):
        d = self.reg.classes[cname]
        init = self.reg.find_method(cname, '__init__')
        for (vs, kw), s in self.ev_args(e, st):
            r = s.new_ref(cname.lower(), d.cid)
            obj = SV(TObj(cname), r)
            if init is None:
                _unsup('constructor %s has no __init__ contract' % cname, e)
            for _, s2 in self.apply_contract(init, [obj] + vs, kw, s, e, constructing=obj):
                yield obj, s2

    # ------------------------------------------------------------------ contract application
    def bind_params(self, c, pos, kw, st, node):
        params = c.params
        env = {}
        if len(pos) > len(params):
            _unsup('too many arguments for %s' % c.target, node)
        for (pn, pt), v in zip(params, pos):
            if not isinstance(v, SeqV) and v.ty.kind == 'opt' and pt.kind not in ('opt', 'any'):
                self.check(st, z3.Not(opt_is_none(v)), 'TypeError', 'none', node)
            env[pn] = v if isinstance(v, SeqV) else self.coerce(v, pt, st)
        for k, v in kw.items():
            pt = dict(params).get(k)
            if pt is None:
                _unsup('unknown keyword %s for %s' % (k, c.target), node)
            env[k] = v if isinstance(v, SeqV) else self.coerce(v, pt, st)
        defaults = c.ghost.get('defaults', {})
        gargs = self.c.ghost.get('args:' + self.call_ordinal(node), {}) if (node is not None and hasattr(self, 'call_ordinal') and isinstance(node, ast.Call)) else {}
        for pn, pt in params:
            if pn not in env:
                if pn in c.ghost_params:
                    # ghost argument: explicit spec expression from the caller's contract, else the caller's variable of the same name
                    if pn in gargs:
                        v, sides = self.spec(gargs[pn], st)
                        st.assume(*sides)
                        env[pn] = v if isinstance(v, SeqV) else self.coerce(v, pt, st)
                    elif pn in st.env:
                        v = st.env[pn]
                        env[pn] = v if isinstance(v, SeqV) else self.coerce(v, pt, st)
                    else:
                        _unsup('no ghost argument %s for call to %s (%s)' % (pn, c.target, self.call_ordinal(node) if isinstance(node, ast.Call) else '?'), node)
                elif pn in defaults:
                    env[pn] = self.coerce(self.const(defaults[pn]), pt, st)
                else:
                    _unsup('missing argument %s for %s' % (pn, c.target), node)
        return env

    def apply_contract(self, c, pos, kw, st, node, constructing=None):
        env = self.bind_params(c, pos, kw, st, node)
        if self.specmode:
            if not c.pure:
                _unsup('impure function %s in specification' % c.target, node)
            if getattr(self, 'code_as_spec', 0) and c.requires:
                _unsup('call with a precondition (%s) nested in a pure argument expression: not checked there' % c.target, node)
        tag = c.qualname.replace('<locals>.', '')
        # 1. preconditions
        if not self.specmode:
            hint = self.c.ghost.get('hint:' + self.call_ordinal(node)) if isinstance(node, ast.Call) else None
            pre_st = st
            if hint:
                # proof steps for the callee's precondition (a cut): every step is an obligation in the full context and is then
                # available; with isolate=True the precondition itself is proved from the proven steps alone (small query)
                henv = dict(st.env)
                henv.update(env)
                lab = self.label('call.' + tag, node)
                iso = st.copy()
                iso.pc = []
                for i, h in enumerate(hint.get('steps', [])):
                    self.oblige_spec('hint.%s.s%d' % (lab, i), h, st, node, kind='ghost', env=henv, old=st)
                    g, sides = self.spec_bool(h, st, env=henv, old=st)
                    st.assume(*sides)
                    st.assume(g)
                    iso.assume(*sides)
                    iso.assume(g)
                if hint.get('isolate'):
                    pre_st = iso
            iso_which = hint.get('isolate') if hint else None
            for i, r in enumerate(c.requires):
                isolated = pre_st is not st and (iso_which is True or (isinstance(iso_which, (list, tuple)) and i in iso_which))
                if isolated:
                    saved_axioms, self.global_axioms = self.global_axioms, (self.global_axioms if hint.get('axioms') else [])
                try:
                    cur = pre_st if isolated else st
                    self.oblige_spec('pre.%s.r%d' % (self.label('call.' + tag, node), i), r, cur, node, kind='pre', env=env, old=cur)
                finally:
                    if isolated:
                        self.global_axioms = saved_axioms
            if pre_st is not st:
                for r in c.requires:      # proved (from the steps): facts of the caller's state from here on
                    self.assume_spec(r, st, env=env, old=st)
            if c.target == self.c.target and c.decreases:
                m1, s1 = self.spec(c.decreases, st, env=env, old=st)
                m0, s0 = self.spec(c.decreases, self.entry, old=self.entry)
                self.oblige('term.rec.' + self.label('rec', node), st, z3.And(m1.z >= 0, m1.z < m0.z), node, kind='term', hyps_extra=s1 + s0,
                            text='recursive call decreases %s' % c.decreases)
        pre = st.copy()
        # 2. frame: what the callee may write must be writable by us
        mods = []
        for m in c.modifies:
            v, sides = self.spec(m, st, env=env, old=st)
            st.assume(*sides)
            mods.append(v)
            if not self.specmode and isinstance(v, SeqV):
                # elements(xs): every element must be writable by the caller
                i = fresh('i_fr', I)
                el = z3.Select(v.arr, i)
                fresh_here = z3.Not(z3.Select(self.entry.H(key_alloc()), el))
                ok = z3.Or(fresh_here, *[self.in_mod(el, mm) for mm in self.modset])
                self.oblige('frame.' + self.label('call.%s.elements' % tag, node), st, z3.Implies(z3.And(0 <= i, i < v.n), ok), node, kind='frame',
                            text='callee may write the elements of %s; each must be fresh or in modifies' % m)
            if not self.specmode and not isinstance(v, SeqV):
                if constructing is not None and z3.eq(v.z, constructing.z):
                    continue
                self.check_write(st, v.z, node, 'call.' + tag)
        post = st
        if mods:
            self.havoc_after_call(post, pre, mods)
        elif not c.pure:
            # allocation may grow
            r = z3.Const('r!al', Ref)
            na = fresh('H_alloc', post.H(key_alloc()).sort())
            post.assume(z3.ForAll([r], z3.Implies(z3.Select(pre.H(key_alloc()), r), z3.Select(na, r)), patterns=[z3.Select(na, r)]))
            post.setH(key_alloc(), na)
        post.havocked = True
        # 3. exceptional exits
        if not self.specmode:
            for E, conds in c.raises.items():
                ex = post.copy()
                excv = None
                if E in self.reg.classes:
                    excv = SV(TObj(E), fresh('exc', Ref))
                    self.assume_typed(excv, ex, depth=0)
                    ex.assume(dtype(excv.z) == self.reg.classes[E].cid)
                for cd in conds:
                    self.assume_spec(cd, ex, env=env, old=pre, exc=excv)
                self.do_raise(E, excv, ex, node)
        # 4. normal exit
        if c.generator is not None:
            res = fresh_sv('gen_out', TSeq(c.generator))
            post.assume(res.n >= 0)
        elif constructing is not None:
            res = SV(NONE, NONEV)
        else:
            res = fresh_sv('ret_' + tag.split('.')[-1], c.returns)
            if c.pure and not c.returns.is_ref:
                # pure functions are functions: same arguments and heap give the same result
                pass
            self.assume_typed(res, post, depth=0)
        inlined = None
        if c.pure and constructing is None and c.generator is None and not c.returns.is_ref:
            # a pure function specified as `result == <expr>` IS that expression: no fresh constant (keeps quantified uses exact)
            for en in c.ensures:
                if isinstance(en, str):
                    n = ast.parse(en.strip(), mode='eval').body
                    if isinstance(n, ast.Compare) and len(n.ops) == 1 and isinstance(n.ops[0], ast.Eq) and isinstance(n.left, ast.Name) and n.left.id == 'result':
                        v, sides = self.spec(ast.unparse(n.comparators[0]), post, env=env, old=pre)
                        tids = getattr(self, '_typing_ids', set())
                        if all(f.get_id() in tids for f in sides) and not isinstance(v, SeqV):
                            post.assume(*sides)
                            inlined = self.coerce(v, c.returns, post)
                            break
        if inlined is not None:
            res = inlined
        for en in c.ensures:
            if isinstance(en, tuple):
                en = 'implies(%s, %s)' % (en[2], en[0])      # a clause with a known finding is only promised outside the recorded inputs
            self.assume_spec(en, post, env=env, old=pre, result=res, out=res if c.generator is not None else None)
        yield res, post

    def keys_of(self, v):
        """heap components that hold state of the object denoted by v (by its static type)"""
        from .state import _key_sorts
        if isinstance(v, SeqV):
            if not v.elem.is_ref:
                return []
            return self.keys_of(SV(v.elem, NULL))
        t = v.ty.args[0] if v.ty.kind == 'opt' else v.ty
        if t.kind == 'obj':
            cls = set(self.reg.mro(t.args[0])) | set(self.reg.subclasses(t.args[0]))
            for c in list(cls):
                cls |= set(self.reg.mro(c))
            return [k for k in _key_sorts if k[0] == 'fld' and k[1] in cls]
        if t.kind == 'list':
            return [k for k in _key_sorts if k[0] in ('len', 'arr')]
        if t.kind in ('dict', 'set'):
            return [k for k in _key_sorts if k[0] in ('dom', 'val', 'mem', 'card', 'ord')]
        return list(_key_sorts)

    def havoc_after_call(self, post, pre, mods):
        from .state import _key_sorts, key_sort
        r = z3.Const('r!fc', Ref)
        pre_alloc = pre.H(key_alloc())
        keys = []
        for m in mods:
            for k in self.keys_of(m):
                if k not in keys:
                    keys.append(k)
        for key in keys:
            if key == ('alloc',):
                continue
            old = pre.H(key)
            new = fresh('H_' + '_'.join(key), key_sort(key))
            notmod = [z3.Not(self.in_mod(r, m)) for m in mods if key in self.keys_of(m)]     # only objects whose state lives in this component
            post.assume(z3.ForAll([r], z3.Implies(z3.And(z3.Select(pre_alloc, r), *notmod), z3.Select(new, r) == z3.Select(old, r)),
                                  patterns=[z3.Select(new, r)]))
            post.setH(key, new)
        na = fresh('H_alloc', pre_alloc.sort())
        post.assume(z3.ForAll([r], z3.Implies(z3.Select(pre_alloc, r), z3.Select(na, r)), patterns=[z3.Select(na, r)]))
        post.setH(key_alloc(), na)
        post.havocked = True
