"""Statement execution: returns a list of Outcomes (next / return / break / continue); raises go to the sink stack."""
import ast
import z3
from .ty import *
from .state import State, key_alloc, key_len, key_arr, key_fld, key_dom, key_val, key_mem, _key_sorts, key_sort

I = z3.IntSort()


def _unsup(msg, node=None):
    from .engine import Unsupported
    raise Unsupported('%s (line %s)' % (msg, getattr(node, 'lineno', '?')))


def _out(kind, st, val=None, line=0):
    from .engine import Outcome
    return Outcome(kind, st, val, None, line)


class StmtMixin:
    def block(self, stmts, states):
        """states: list[State] -> list[Outcome]"""
        live = [_out('next', s) for s in states]
        done = []
        for s in stmts:
            nxt = []
            for o in live:
                for r in self.stmt(s, o.st):
                    (nxt if r.kind == 'next' else done).append(r)
            live = nxt
            if len(live) > 4000:
                _unsup('path explosion', s)
        return live + done

    def stmt(self, s, st):
        m = getattr(self, 'st_' + type(s).__name__, None)
        if m is None:
            _unsup('statement %s' % type(s).__name__, s)
        st = st.copy()
        if self.c.ghost and not self.specmode:
            key = self.stmt_key(s)
            for j, g in enumerate(self.c.ghost.get(key, [])):
                # ghost assertion: proved here, then available (trigger terms / lemma instances)
                self.oblige_spec('ghost.%s.g%d' % (key, j), g, st, s, kind='ghost', old=self.entry, out=st.out)
                self.assume_spec(g, st, old=self.entry, out=st.out)
        return m(s, st)

    def stmt_key(self, s):
        """'<StmtType>#<ordinal in source order within the function>' (anchor for ghost assertions)"""
        if not hasattr(self, '_stmt_ords'):
            self._stmt_ords = {}
            cnt = {}
            nodes = sorted((n for n in ast.walk(self.fn) if isinstance(n, ast.stmt)), key=lambda n: (n.lineno, n.col_offset))
            for n in nodes:
                k = type(n).__name__
                self._stmt_ords[id(n)] = '%s#%d' % (k, cnt.get(k, 0))
                cnt[k] = cnt.get(k, 0) + 1
        return self._stmt_ords.get(id(s), '?')

    # ------------------------------------------------------------------ simple statements
    def st_Pass(self, s, st):
        return [_out('next', st)]

    def st_Global(self, s, st):
        return [_out('next', st)]

    st_Nonlocal = st_Global

    def st_Import(self, s, st):
        return [_out('next', st)]

    st_ImportFrom = st_Import

    def st_Break(self, s, st):
        return [_out('break', st)]

    def st_Continue(self, s, st):
        return [_out('continue', st)]

    def st_Expr(self, s, st):
        v = s.value
        if isinstance(v, ast.Constant):
            return [_out('next', st)]          # docstring
        if isinstance(v, ast.Yield):
            outs = []
            for val, s2 in (self.ev(v.value, st) if v.value is not None else [(SV(NONE, NONEV), st)]):
                self.do_yield(val, s2, s)
                outs.append(_out('next', s2))
            return outs
        if isinstance(v, ast.YieldFrom):
            outs = []
            for val, s2 in self.ev(v.value, st):
                if not isinstance(val, SeqV):
                    val = self.seq_of(val, s2)
                self.do_yield_from(val, s2, s)
                outs.append(_out('next', s2))
            return outs
        if isinstance(v, ast.Call) and self.is_noop_call(v):
            for a in v.args:
                if self.is_pure(a):
                    continue
            return [_out('next', st)]
        return [_out('next', s2) for _, s2 in self.ev(v, st)]

    def is_noop_call(self, call):
        f = call.func
        if isinstance(f, ast.Attribute) and isinstance(f.value, ast.Name) and f.value.id in ('logger', 'warnings', 'logging'):
            return True
        return isinstance(f, ast.Name) and f.id == 'print'

    def do_yield(self, val, st, node):
        if st.out is None:
            _unsup('yield in a function whose contract is not a generator', node)
        o = st.out
        v = self.coerce(val, o.elem, st)
        st.out = SeqV(o.elem, z3.Store(o.arr, o.n, v.z), o.n + 1)
        self.seq_lemmas(st.out, o, o.n, st)

    def do_yield_from(self, seq, st, node):
        if st.out is None:
            _unsup('yield from in a function whose contract is not a generator', node)
        st.out = self.seq_concat(st.out, seq, st)

    def st_Assert(self, s, st):
        if isinstance(s.test, ast.Constant) and not s.test.value:
            if self.catches('AssertionError'):
                self.do_raise('AssertionError', None, st, s)
            else:
                self.oblige('assert.' + self.label('unreachable', s), st, z3.BoolVal(False), s, kind='assert', text='assert False must be unreachable')
            return []
        outs = []
        for v, s2 in self.ev(s.test, st):
            g = self.truthy(v, s2)
            if self.catches('AssertionError'):
                bad = s2.copy()
                bad.assume(z3.Not(g))
                self.do_raise('AssertionError', None, bad, s)
            else:
                self.oblige('assert.' + self.label('assert', s), s2, g, s, kind='assert', text=ast.unparse(s.test))
            s2.assume(g)
            outs.append(_out('next', s2))
        return outs

    def st_Return(self, s, st):
        if s.value is None:
            return [_out('return', st, SV(NONE, NONEV), s.lineno)]
        if isinstance(s.value, ast.List) and self.c.returns.kind == 'list':
            s.value._elem_hint = self.c.returns.args[0]
        if isinstance(s.value, ast.Dict) and not s.value.keys and self.c.returns.kind == 'dict':
            s.value._dict_hint = self.c.returns          # `return {}`: an empty dict of the declared return type
        return [_out('return', s2, v, s.lineno) for v, s2 in self.ev(s.value, st)]

    def st_Raise(self, s, st):
        if s.exc is None:
            cur = st.tags.get('handling')
            if cur is None:
                _unsup('bare raise outside handler', s)
            self.do_raise(cur[0], cur[1], st, s)
            return []
        exc = s.exc
        if isinstance(exc, ast.Name) and exc.id in st.env:
            v = st.env[exc.id]
            self.do_raise(v.ty.args[0], v, st, s)
            return []
        name = exc.func if isinstance(exc, ast.Call) else exc
        cname = name.id if isinstance(name, ast.Name) else name.attr
        if isinstance(exc, ast.Call):
            for (v, s2) in self.construct_exception(cname, exc, st):
                self.do_raise(cname, v, s2, s)
        else:
            self.do_raise(cname, None, st, s)
        return []

    def construct_exception(self, cname, call, st):
        # a declared exception class with an __init__ contract is constructed like any object; otherwise the
        # arguments are evaluated (for their own safety obligations) and the value is opaque
        d = self.reg.classes.get(cname)
        if d is not None and self.reg.find_method(cname, '__init__') is not None:
            yield from self.ev(call, st)
            return
        exprs = list(call.args) + [k.value for k in call.keywords]
        from .engine import Unsupported
        try:
            results = list(self.ev_many(exprs, st.copy()))
        except Unsupported:
            # the message of an exception is built with arbitrary formatting code; when that is outside the subset it is not evaluated
            # (stated in the evidence: exceptions raised while building an error message are not modelled)
            results = [([], st)]
        for vs, s2 in results:
            if d is not None:
                r = s2.new_ref('exc', d.cid)
                yield SV(TObj(cname), r), s2
            else:
                yield None, s2

    # ------------------------------------------------------------------ assignment
    def st_Assign(self, s, st):
        outs = []
        if isinstance(s.value, ast.List) and len(s.targets) == 1 and isinstance(s.targets[0], ast.Name):
            t = self.c.types.get(s.targets[0].id)
            if t is not None and t.kind == 'list':
                s.value._elem_hint = t.args[0]
        if isinstance(s.value, ast.Call) and isinstance(s.value.func, ast.Name) and s.value.func.id in ('set', 'list') and not s.value.args \
                and len(s.targets) == 1 and isinstance(s.targets[0], ast.Name):
            t = self.c.types.get(s.targets[0].id)
            if t is not None and t.kind in ('set', 'list'):
                s.value._elem_hint = t.args[0]
        if isinstance(s.value, ast.Dict) and len(s.targets) == 1 and isinstance(s.targets[0], ast.Name):
            t = self.c.types.get(s.targets[0].id)
            if t is not None and t.kind == 'dict':
                s.value._dict_hint = t
        if isinstance(s.value, ast.Dict) and isinstance(s.targets[0], ast.Attribute):
            ft = self.static_attr_type(s.targets[0], st)
            if ft is not None and ft.kind == 'dict':
                s.value._dict_hint = ft
        if isinstance(s.value, ast.List) and isinstance(s.targets[0], ast.Attribute):
            ft = self.static_attr_type(s.targets[0], st)
            if ft is not None and ft.kind == 'list':
                s.value._elem_hint = ft.args[0]
        for v, s2 in self.ev(s.value, st):
            states = [s2]
            for t in s.targets:
                nxt = []
                for s3 in states:
                    nxt += self.assign(t, v, s3, s)
                states = nxt
            outs += [_out('next', x) for x in states]
        return outs

    def static_attr_type(self, target, st):
        try:
            if isinstance(target.value, ast.Name) and target.value.id in st.env:
                v = st.env[target.value.id]
                if not isinstance(v, SeqV) and v.ty.kind == 'obj':
                    f = self.reg.find_field(v.ty.args[0], target.attr)
                    return f[2] if f else None
        except Exception:
            pass
        return None

    def st_AnnAssign(self, s, st):
        if s.value is None:
            return [_out('next', st)]
        outs = []
        for v, s2 in self.ev(s.value, st):
            outs += [_out('next', x) for x in self.assign(s.target, v, s2, s)]
        return outs

    def st_AugAssign(self, s, st):
        load = ast.copy_location(ast.BinOp(left=self.as_load(s.target), op=s.op, right=s.value), s)
        ast.fix_missing_locations(load)
        # list += iterable mutates in place
        outs = []
        for v, s2 in self.ev(load.left, st):
            if not isinstance(v, SeqV) and v.ty.kind == 'list' and isinstance(s.op, ast.Add):
                for r, s3 in self.ev(s.value, s2):
                    self.list_extend(v, r, s3, s)
                    outs.append(_out('next', s3))
            else:
                for r, s3 in self.ev(s.value, s2):
                    res = self.binop(s.op, v, r, s3, s)
                    outs += [_out('next', x) for x in self.assign(s.target, res, s3, s)]
        return outs

    def as_load(self, t):
        t2 = ast.parse(ast.unparse(t), mode='eval').body
        return ast.copy_location(t2, t)

    def assign(self, target, v, st, node):
        """-> list of states"""
        if isinstance(target, ast.Name):
            decl = self.c.types.get(target.id)
            if decl is not None and not isinstance(v, SeqV):
                v = self.coerce(v, decl, st)
            st.env[target.id] = v
            return [st]
        if isinstance(target, (ast.Tuple, ast.List)):
            if isinstance(v, SeqV) or v.ty.kind == 'list':
                sq = self.seq_of(v, st)
                self.check(st, sq.n == len(target.elts), 'ValueError', 'unpack', node)
                states = [st]
                for i, t in enumerate(target.elts):
                    nxt = []
                    for s in states:
                        nxt += self.assign(t, SV(sq.elem, z3.Select(sq.arr, i)), s, node)
                    states = nxt
                return states
            if v.ty.kind == 'opt' and v.ty.args[0].kind == 'tuple':
                self.check(st, z3.Not(opt_is_none(v)), 'TypeError', 'none', node)
                v = opt_val(v)
            if v.ty.kind != 'tuple':
                _unsup('unpacking %r' % (v.ty,), node)
            if len(v.ty.args) != len(target.elts):
                self.check(st, z3.BoolVal(False), 'ValueError', 'unpack', node)
                return []
            states = [st]
            for i, t in enumerate(target.elts):
                nxt = []
                for s in states:
                    nxt += self.assign(t, tuple_get(v, i), s, node)
                states = nxt
            return states
        if isinstance(target, ast.Attribute):
            res = []
            for o, s in self.ev(target.value, st):
                self.setattr(o, target.attr, v, s, node)
                res.append(s)
            return res
        if isinstance(target, ast.Subscript):
            res = []
            if isinstance(target.slice, ast.Slice):
                _unsup('slice assignment', node)
            for (c, i), s in self.ev_many([target.value, target.slice], st):
                self.setitem(c, i, v, s, node)
                res.append(s)
            return res
        _unsup('assignment target %s' % type(target).__name__, node)

    def setattr(self, o, attr, v, st, node):
        if o.ty.kind == 'opt':
            self.check(st, z3.Not(opt_is_none(o)), 'AttributeError', 'none', node)
            o = opt_val(o)
        if o.ty.kind != 'obj':
            _unsup('attribute store on %r' % (o.ty,), node)
        f = self.reg.find_field(o.ty.args[0], attr)
        if f is None or f[0] != 'field':
            _unsup('store to undeclared/const field %s.%s' % (o.ty.args[0], attr), node)
        _, c, ty = f
        self.check_write(st, o.z, node, 'setattr')
        st.fset(o.z, c, attr, sort_of(ty), self.coerce(v, ty, st).z)
        if attr in self.c.ghost.get('publish', []):
            # publication point of a lazily built shared value: from here on other threads may see it, so it must be complete
            st.tags['published'] = (attr, getattr(node, 'lineno', 0))

    def setitem(self, c, i, v, st, node):
        if c.ty.kind == 'list':
            n = st.llen(c.z)
            idx = self.norm_index(i.z, n)
            self.check(st, z3.And(0 <= idx, idx < n), 'IndexError', 'index', node)
            self.check_write(st, c.z, node, 'setitem')
            es = sort_of(c.ty.args[0])
            st.lset(c.z, es, z3.Store(st.larr(c.z, es), idx, self.coerce(v, c.ty.args[0], st).z))
            return
        if c.ty.kind == 'dict':
            kt, vt = c.ty.args
            self.check_write(st, c.z, node, 'setitem')
            self.dict_store(c, self.coerce(i, kt, st).z, self.coerce(v, vt, st).z, st)
            return
        _unsup('item store on %r' % (c.ty,), node)

    def dict_store(self, d, kz, vz, st):
        from .state import key_card
        kt, vt = d.ty.args
        ks, vs = sort_of(kt), sort_of(vt)
        dom = st.ddom(d.z, ks)
        card = z3.Select(st.H(key_card()), d.z)
        st.setH(key_card(), z3.Store(st.H(key_card()), d.z, z3.If(z3.Select(dom, kz), card, card + 1)))
        st.dset(d.z, ks, vs, z3.Store(dom, kz, True), z3.Store(st.dval(d.z, ks, vs), kz, vz))

    def st_Delete(self, s, st):
        outs = [st]
        for t in s.targets:
            nxt = []
            for s0 in outs:
                if isinstance(t, ast.Subscript) and isinstance(t.slice, ast.Slice):
                    parts = [t.value] + [p for p in (t.slice.lower, t.slice.upper) if p is not None]
                    for vs, s2 in self.ev_many(parts, s0):
                        c = vs[0]
                        if c.ty.kind != 'list':
                            _unsup('del slice on %r' % (c.ty,), s)
                        n = s2.llen(c.z)
                        k = 1
                        lo, hi = z3.IntVal(0), n
                        if t.slice.lower is not None:
                            lo = self.clamp(vs[k].z, n); k += 1
                        if t.slice.upper is not None:
                            hi = self.clamp(vs[k].z, n)
                        self.check_write(s2, c.z, s, 'del')
                        if t.slice.upper is None:
                            s2.lset(c.z, sort_of(c.ty.args[0]), n=z3.simplify(z3.If(lo < n, lo, n)))
                        else:
                            sq = s2.list_seq(c)
                            hi = z3.If(hi < lo, lo, hi)
                            res = self.seq_concat(self.seq_slice(sq, z3.IntVal(0), lo, s2), self.seq_slice(sq, hi, n, s2), s2)
                            s2.lset(c.z, sort_of(c.ty.args[0]), res.arr, res.n)
                        nxt.append(s2)
                elif isinstance(t, ast.Subscript):
                    for (c, i), s2 in self.ev_many([t.value, t.slice], s0):
                        if c.ty.kind == 'dict':
                            from .state import key_card
                            kt, vt = c.ty.args
                            kz = self.coerce(i, kt, s2).z
                            self.check(s2, z3.Select(s2.ddom(c.z, sort_of(kt)), kz), 'KeyError', 'key', s)
                            self.check_write(s2, c.z, s, 'del')
                            s2.dset(c.z, sort_of(kt), sort_of(vt), dom=z3.Store(s2.ddom(c.z, sort_of(kt)), kz, False))
                            card = z3.Select(s2.H(key_card()), c.z)
                            s2.setH(key_card(), z3.Store(s2.H(key_card()), c.z, card - 1))
                            nxt.append(s2)
                        else:
                            _unsup('del item on %r' % (c.ty,), s)
                elif isinstance(t, ast.Name):
                    s0.env.pop(t.id, None)
                    nxt.append(s0)
                else:
                    _unsup('del target', s)
            outs = nxt
        return [_out('next', x) for x in outs]

    # ------------------------------------------------------------------ control flow
    def st_If(self, s, st):
        outs = []
        for v, s2 in self.ev(s.test, st):
            t = self.truthy(v, s2)
            a, b = s2.copy(), s2
            a.assume(t)
            b.assume(z3.Not(t))
            self.narrow(s.test, a, True)
            self.narrow(s.test, b, False)
            ts = z3.simplify(t)
            if not z3.is_false(ts):
                outs += self.block(s.body, [a])
            if not z3.is_true(ts):
                outs += self.block(s.orelse, [b]) if s.orelse else [_out('next', b)]
        return outs

    def narrow(self, test, st, positive):
        """flow typing: `x is None` / `x is not None` / `if x` / isinstance(x, C) on a local name of opt/obj type"""
        if isinstance(test, ast.UnaryOp) and isinstance(test.op, ast.Not):
            return self.narrow(test.operand, st, not positive)
        if isinstance(test, ast.BoolOp):
            if (isinstance(test.op, ast.And) and positive) or (isinstance(test.op, ast.Or) and not positive):
                for v in test.values:
                    self.narrow(v, st, positive)
            return
        name = None
        if isinstance(test, ast.Compare) and len(test.ops) == 1 and isinstance(test.left, ast.Name) \
                and isinstance(test.comparators[0], ast.Constant) and test.comparators[0].value is None:
            if isinstance(test.ops[0], (ast.Is, ast.Eq)):
                name, nonnull = test.left.id, not positive
            elif isinstance(test.ops[0], (ast.IsNot, ast.NotEq)):
                name, nonnull = test.left.id, positive
        elif isinstance(test, ast.Name):
            name, nonnull = test.id, positive
        if name is not None and nonnull and name in st.env:
            v = st.env[name]
            if not isinstance(v, SeqV) and v.ty.kind == 'opt':
                st.env[name] = opt_val(v)
            return
        if isinstance(test, ast.Call) and isinstance(test.func, ast.Name) and test.func.id == 'isinstance' and positive \
                and isinstance(test.args[0], ast.Name) and isinstance(test.args[1], ast.Name) and test.args[0].id in st.env:
            v = st.env[test.args[0].id]
            cn = self.class_alias(test.args[1].id)
            if not isinstance(v, SeqV) and cn in self.reg.classes:
                if v.ty.kind == 'obj' and cn in self.reg.subclasses(v.ty.args[0]):
                    st.env[test.args[0].id] = SV(TObj(cn), v.z)
                elif v.ty.kind == 'opt' and v.ty.args[0].kind == 'obj':
                    st.env[test.args[0].id] = SV(TObj(cn), v.z)
                elif v.ty.kind == 'any':
                    nv = self.from_any(v, TObj(cn))
                    self.assume_typed(nv, st, depth=0)       # an instance is a live, non-null object of that class
                    st.assume(self.to_any(nv).z == v.z)      # ... and viewing it dynamically again gives the same value
                    st.env[test.args[0].id] = nv

    def st_Try(self, s, st):
        caught = []
        for h in s.handlers:
            caught += self.handler_classes(h)
        self.handlers.append(caught)
        self.sinks.append([])
        try:
            outs = self.block(s.body, [st])
        finally:
            raised = self.sinks.pop()
            self.handlers.pop()
        res = []
        normal = [o for o in outs if o.kind == 'next']
        res += [o for o in outs if o.kind != 'next']
        if s.orelse:
            res_else = self.block(s.orelse, [o.st for o in normal])
            res += res_else
        else:
            res += normal
        for r in raised:
            handled = False
            for h in s.handlers:
                if any(self.reg.is_exc_subclass(r.exc, hc) for hc in self.handler_classes(h)):
                    hs = r.st.copy()
                    if h.name:
                        if r.val is not None:
                            hs.env[h.name] = r.val
                        elif r.exc in self.reg.classes:
                            hs.env[h.name] = SV(TObj(r.exc), hs.new_ref('exc', self.reg.classes[r.exc].cid))
                    hs.tags['handling'] = (r.exc, r.val)
                    res += self.block(h.body, [hs])
                    handled = True
                    break
            if not handled:
                self.sinks[-1].append(r)
        if s.finalbody:
            fin = []
            for o in res:
                for f in self.block(s.finalbody, [o.st]):
                    if f.kind == 'next':
                        from .engine import Outcome
                        fin.append(Outcome(o.kind, f.st, o.val, o.exc, o.line))
                    else:
                        fin.append(f)
            res = fin
        return res

    def handler_classes(self, h):
        if h.type is None:
            return ['BaseException']
        ts = h.type.elts if isinstance(h.type, ast.Tuple) else [h.type]
        out = []
        for t in ts:
            out.append(t.id if isinstance(t, ast.Name) else t.attr)
        return out

    # ------------------------------------------------------------------ loops
    def loop_spec(self, node):
        no = self.loop_no
        self.loop_no += 1
        spec = self.c.loops.get(no)
        if spec is None:
            _unsup('loop #%d has no invariant in the contract' % no, node)
        return no, spec

    def assigned_names(self, node):
        names = set()
        for n in ast.walk(node):
            if isinstance(n, ast.Name) and isinstance(n.ctx, (ast.Store, ast.Del)):
                names.add(n.id)
        return names

    def havoc_for_loop(self, st, node, spec):
        """havoc every local assigned in the loop and every heap component (conservatively: all materialised ones
        that a statement in the loop could write); frame: objects allocated at function entry and outside the
        function's modifies set keep their state."""
        h = st.copy()
        for a in sorted(self.assigned_names(node)):
            if a in h.env:
                v = h.env[a]
                nv = fresh_sv(a, v.ty)
                h.env[a] = nv
                self.assume_typed(nv, h, depth=0)
        writes = self.loop_writes(node)
        if writes:
            import os as _os
            self.havoc_heap(h, writes, self.modset, keys=None if _os.environ.get('VERIF_FULL_HAVOC') else self.loop_write_keys(node))
        if h.out is not None and self.contains_yield(node):
            h.out = SeqV(h.out.elem, fresh('out_arr', z3.ArraySort(I, sort_of(h.out.elem))), fresh('out_n', I))
            h.assume(h.out.n >= 0)
        return h

    def contains_yield(self, node):
        return any(isinstance(n, (ast.Yield, ast.YieldFrom)) for n in ast.walk(node))

    def loop_writes(self, node):
        """True if the loop body may write the heap (attribute/item stores, mutating calls, contract calls)"""
        for n in ast.walk(node):
            if isinstance(n, (ast.Attribute, ast.Subscript)) and isinstance(n.ctx, (ast.Store, ast.Del)):
                return True
            if isinstance(n, ast.AugAssign):
                return True
            if isinstance(n, ast.Call):
                if not self.call_is_pure(n):
                    return True
            if isinstance(n, (ast.List, ast.ListComp, ast.Dict, ast.Set, ast.SetComp, ast.DictComp)):
                return True
        return False

    LIST_MUT = {'append', 'extend', 'insert', 'sort', 'reverse'}
    SET_MUT = {'add', 'discard'}
    DICT_MUT = {'setdefault'}
    ANY_MUT = {'pop', 'remove', 'clear', 'update', 'popitem', '__setitem__', '__delitem__'}

    def loop_write_keys(self, node):
        """heap components a statement inside the loop may write, from the syntax and the declared contracts (a type-based write effect):
        attribute stores name the field; container mutators name the container kind; calls contribute the components of the types in the
        callee's modifies clause; anything that cannot be classified makes the answer 'every component' (None)."""
        from .state import _key_sorts
        keys = set()
        allk = list(_key_sorts)
        LISTK = [k for k in allk if k[0] in ('len', 'arr')]
        SETK = [k for k in allk if k[0] in ('mem', 'card')]
        DICTK = [k for k in allk if k[0] in ('dom', 'val', 'card', 'ord')]
        CONT = LISTK + SETK + DICTK

        def fields_named(f):
            return [k for k in allk if k[0] == 'fld' and k[2] == f]

        for n in ast.walk(node):
            if isinstance(n, ast.Attribute) and isinstance(n.ctx, (ast.Store, ast.Del)):
                keys.update(fields_named(n.attr))
            elif isinstance(n, ast.Subscript) and isinstance(n.ctx, (ast.Store, ast.Del)):
                keys.update(CONT)
            elif isinstance(n, ast.AugAssign):
                # `xs += ys` extends a list IN PLACE; |=, -=, &= update sets / dicts in place
                if isinstance(n.op, ast.Add):
                    keys.update(LISTK)
                elif isinstance(n.op, (ast.BitOr, ast.Sub, ast.BitAnd, ast.BitXor)):
                    keys.update(SETK + DICTK)
            elif isinstance(n, (ast.List, ast.ListComp)):
                keys.update(LISTK)
            elif isinstance(n, (ast.Set, ast.SetComp)):
                keys.update(SETK)
            elif isinstance(n, (ast.Dict, ast.DictComp)):
                keys.update(DICTK)
            elif isinstance(n, (ast.Yield, ast.YieldFrom, ast.Lambda, ast.Await, ast.With, ast.Try, ast.Starred)):
                if isinstance(n, (ast.With, ast.Await, ast.Starred)):
                    return None
            elif isinstance(n, ast.Call):
                if self.call_is_pure(n):
                    continue
                f = n.func
                if isinstance(f, ast.Attribute):
                    if f.attr in self.LIST_MUT:
                        keys.update(LISTK); continue
                    if f.attr in self.SET_MUT:
                        keys.update(SETK); continue
                    if f.attr in self.DICT_MUT:
                        keys.update(DICTK); continue
                    if f.attr in self.ANY_MUT:
                        keys.update(CONT); continue
                    cs = [c for t, c in self.reg.contracts.items() if t.endswith('.' + f.attr) or t.endswith(':' + f.attr)]
                    r = self.resolve_name(ast.unparse(f))
                    if r is not None and r[0] == 'contract':
                        cs = [self.reg.contracts[r[1]]]
                    if not cs:
                        return None
                elif isinstance(f, ast.Name):
                    if f.id in self.reg.classes or (self.resolve_name(f.id) or ('',))[0] == 'class':
                        cn = f.id if f.id in self.reg.classes else self.resolve_name(f.id)[1]
                        for c in set(self.reg.mro(cn)):
                            keys.update(k for k in allk if k[0] == 'fld' and k[1] == c)
                        init = self.reg.find_method(cn, '__init__')
                        cs = [init] if init is not None else []
                    else:
                        r = self.resolve_name(f.id)
                        if r is not None and r[0] == 'contract':
                            cs = [self.reg.contracts[r[1]]]
                        elif r is not None and r[0] == 'dispatch':
                            cs = [self.reg.contracts[t] for t in r[1].values()]
                        elif f.id in ('list', 'sorted', 'reversed'):
                            keys.update(LISTK); continue
                        elif f.id in ('set', 'frozenset'):
                            keys.update(SETK); continue
                        elif f.id == 'dict':
                            keys.update(DICTK); continue
                        elif f.id in ('copy', 'deepcopy'):
                            return None
                        else:
                            return None
                else:
                    return None
                for c in cs:
                    if c.ghost.get('callbacks') or any(k_.startswith('callv:') for k_ in c.ghost):
                        return None
                    ptypes = dict(c.params)
                    for m in c.modifies:
                        # the static type of a modifies entry: a parameter, or an attribute path from one; anything else: give up
                        parts = m.replace('elements(', '').replace(')', '').split('.')
                        t = ptypes.get(parts[0])
                        for a_ in parts[1:]:
                            if t is None:
                                break
                            tt = t.args[0] if t.kind == 'opt' else t
                            fld = self.reg.find_field(tt.args[0], a_) if tt.kind == 'obj' else None
                            t = fld[2] if fld else None
                        if t is None:
                            return None
                        if t.kind in ('list', 'seq') and 'elements(' in m:
                            t = t.args[0]
                        keys.update(self.keys_of(SV(t, NULL)))
                    if not c.pure and not c.modifies:
                        pass        # allocation only
        # first-class calls in the loop (callbacks with a model) may write what their model says: be conservative
        if any(k_.startswith('callv:') for k_ in self.c.ghost):
            for n in ast.walk(node):
                if isinstance(n, ast.Call) and ('callv:' + self.call_ordinal(n)) in self.c.ghost:
                    return None
        return [k for k in allk if k in keys and k != ('alloc',)]

    def havoc_heap(self, st, writes, modset, keys=None):
        """replace heap components by fresh arrays; objects allocated at *function entry* that are not in modset are unchanged;
        allocation only grows."""
        pre_alloc = st.H(key_alloc())
        entry_alloc = self.entry.H(key_alloc()) if self.entry is not None else pre_alloc
        r = z3.Const('r!fr', Ref)
        for key in list(_key_sorts.keys()) if keys is None else keys:
            if key == ('alloc',):
                continue
            old = st.H(key)
            new = fresh('H_' + '_'.join(key), key_sort(key))
            notmod = [z3.Not(self.in_mod(r, m)) for m in modset if key in self.keys_of(m)]
            st.assume(z3.ForAll([r], z3.Implies(z3.And(z3.Select(entry_alloc, r), *notmod), z3.Select(new, r) == z3.Select(self.entry.H(key) if self.entry is not None else old, r)),
                                patterns=[z3.Select(new, r)]))
            st.setH(key, new)
        new_alloc = fresh('H_alloc', key_sort(key_alloc()))
        st.assume(z3.ForAll([r], z3.Implies(z3.Select(pre_alloc, r), z3.Select(new_alloc, r)), patterns=[z3.Select(new_alloc, r)]))
        st.setH(key_alloc(), new_alloc)
        st.havocked = True

    def st_While(self, s, st):
        no, spec = self.loop_spec(s)
        return self.run_loop(s, st, no, spec, test=s.test, pre_body=None)

    def run_loop(self, s, st, no, spec, test, pre_body, post_iter=None, extra_env=None, refresh=None):
        invs = spec.get('inv', [])
        # ghost lets: names for values at loop entry (mathematical values: sequences / ints), usable in the invariants
        for gname, gsrc in spec.get('let', {}).items():
            gv, sides = self.spec(gsrc, st, old=self.entry, out=st.out)
            st.assume(*sides)
            st.env[gname] = gv
        # 1. invariant holds on entry
        for k, inv in enumerate(invs):
            self.oblige_spec('inv-init.L%d.i%d' % (no, k), inv, st, s, kind='inv-init', old=self.entry, out=st.out)
        # 2. arbitrary iteration
        h = self.havoc_for_loop(st, s, spec)
        if refresh is not None:
            refresh(h)          # engine-owned views of the heap (the iterated list) follow the havocked heap before the invariant is assumed
        for inv in invs:
            self.assume_spec(inv, h, old=self.entry, out=h.out)
        variant0 = None
        if spec.get('decreases'):
            variant0, sides = self.spec(spec['decreases'], h, old=self.entry, out=h.out)
            h.assume(*sides)
        outs = []
        body_states, exit_states = [], []
        if test is None:
            body_states = [h.copy()]
        else:
            for v, s2 in self.ev(test, h.copy()):
                t = self.truthy(v, s2)
                b, e = s2.copy(), s2
                b.assume(t)
                e.assume(z3.Not(t))
                self.narrow(test, b, True)
                self.narrow(test, e, False)
                body_states.append(b)
                exit_states.append(e)
        if pre_body is not None:
            nb, ne = [], []
            for b in body_states:
                more, done = pre_body(b)
                nb += more
                ne += done
            body_states, exit_states = nb, exit_states + ne
        save_loop = self.loop_no
        body_outs = self.block(s.body, body_states)
        for o in body_outs:
            if o.kind in ('next', 'continue'):
                s3 = o.st
                self.check_stable_types(h, s3, s)
                if post_iter is not None:
                    post_iter(s3)
                for k, inv in enumerate(invs):
                    self.oblige_spec('inv-keep.L%d.i%d' % (no, k), inv, s3, s, kind='inv-keep', old=self.entry, out=s3.out)
                # `step` clauses: what must hold whenever an iteration ends WITHOUT leaving the loop (the body's locals are in scope);
                # checked, never assumed
                for k, cl in enumerate(spec.get('step', [])):
                    self.oblige_spec('step.L%d.s%d' % (no, k), cl, s3, s, kind='inv-keep', old=self.entry, out=s3.out)
                if variant0 is not None:
                    v1, sides = self.spec(spec['decreases'], s3, old=self.entry, out=s3.out)
                    self.oblige('term.L%d' % no, s3, z3.And(v1.z < variant0.z, variant0.z >= 0), s, kind='term', hyps_extra=sides,
                                text='loop variant %s decreases and is bounded' % spec['decreases'])
            elif o.kind == 'break':
                outs.append(_out('next', o.st))
            else:
                outs.append(o)
        # 3. exit
        if getattr(s, 'orelse', None):
            outs += self.block(s.orelse, exit_states)
        else:
            outs += [_out('next', e) for e in exit_states]
        return outs

    def check_stable_types(self, head, back, node):
        """a variable havocked at the loop head keeps the type it had there; a value of another type arriving on the back edge
        (e.g. None -> tuple) cannot be represented by the havocked variable: refuse rather than mis-model"""
        for name, v0 in head.env.items():
            v1 = back.env.get(name)
            if v1 is None or name.startswith('_'):
                continue
            t0 = v0.ty
            t1 = v1.ty
            if t0 != t1 and name in self.c.types and not isinstance(v1, SeqV):
                try:
                    back.env[name] = self.coerce(v1, self.c.types[name], back)      # flow-narrowed value back at its declared type
                    continue
                except Exception:
                    pass
            if t0 != t1 and not (sort_of(t0) == sort_of(t1) and t0.kind == t1.kind):
                from .engine import WidenType
                if name not in self.c.types:
                    if t0.kind == 'none' and t1.kind not in ('seq',):
                        raise WidenType(name, TOpt(t1))
                    if t1.kind == 'none' and t0.kind not in ('seq',):
                        raise WidenType(name, TOpt(t0))
                _unsup('variable %r changes type across loop iterations (%r -> %r): declare it in the contract types' % (name, t0, t1), node)

    def st_For(self, s, st):
        no, spec = self.loop_spec(s)
        outs = []
        for it, s2 in self.ev_iter(s.iter, st):
            outs += self.for_over(s, s2, no, spec, it)
        return outs

    def ev_iter(self, e, st):
        """iterable expression -> descriptor"""
        if isinstance(e, ast.Call) and isinstance(e.func, ast.Name) and e.func.id == 'range':
            for vs, s2 in self.ev_many(e.args, st):
                zs = [v.z for v in vs]
                if len(zs) == 1: zs = [z3.IntVal(0), zs[0], z3.IntVal(1)]
                if len(zs) == 2: zs = zs + [z3.IntVal(1)]
                step = z3.simplify(zs[2])
                if not z3.is_int_value(step) or step.as_long() == 0:
                    _unsup('range step must be a non-zero constant', e)
                yield ('range', zs[0], zs[1], step.as_long()), s2
            return
        if isinstance(e, ast.Call) and isinstance(e.func, ast.Name) and e.func.id == 'enumerate' and len(e.args) == 1:
            for it, s2 in self.ev_iter(e.args[0], st):
                yield ('enumerate', it), s2
            return
        if isinstance(e, ast.Call) and isinstance(e.func, ast.Attribute) and e.func.attr in ('items', 'keys', 'values') and not e.args:
            for d, s2 in self.ev(e.func.value, st):
                if not isinstance(d, SeqV) and d.ty.kind == 'dict':
                    yield ('dict', d, e.func.attr), s2
                else:
                    _unsup('.%s() on %r' % (e.func.attr, d.ty), e)
            return
        for v, s2 in self.ev(e, st):
            if isinstance(v, SeqV):
                yield ('seq', v), s2
            elif v.ty.kind == 'list':
                yield ('list', v), s2
            elif v.ty.kind == 'tuple':
                yield ('seq', self.seq_of(v, s2)), s2
            elif v.ty.kind == 'dict':
                yield ('dict', v, 'keys'), s2
            elif v.ty.kind == 'set':
                yield ('set', v), s2
            elif v.ty.kind == 'obj' and self.reg.find_method(v.ty.args[0], '__iter__') is not None:
                for sq, s3 in self.apply_contract(self.reg.find_method(v.ty.args[0], '__iter__'), [v], {}, s2, e):
                    yield ('seq', sq), s3
            else:
                _unsup('iteration over %r' % (v.ty,), e)

    def for_over(self, s, st, no, spec, it):
        kname = '_i%d' % no
        kind = it[0]
        enum = False
        if kind == 'enumerate':
            enum = True
            it = it[1]
            kind = it[0]
        if kind == 'range':
            _, lo, hi, step = it
            var = s.target.id
            st.env[var + '!next'] = SV(INT, lo)
            # desugar: x = next; while (x < hi): body; next += step.   The invariant talks about the *next* value through the loop variable
            st.env[var] = SV(INT, lo)
            more = (lambda v: v < hi) if step > 0 else (lambda v: v > hi)

            class T(ast.AST):
                pass
            test_node = None

            def pre_body(b):
                return [b], []
            # implement directly: loop variable holds the value for the coming iteration at the loop head
            return self._range_loop(s, st, no, spec, var, lo, hi, step, more)
        if kind in ('seq', 'list', 'dict', 'set'):
            return self._indexed_loop(s, st, no, spec, it, kname, enum)
        _unsup('for over %s' % kind, s)

    def _range_loop(self, s, st, no, spec, var, lo, hi, step, more):
        invs = spec.get('inv', [])
        st.env[var] = SV(INT, lo)
        for k, inv in enumerate(invs):
            self.oblige_spec('inv-init.L%d.i%d' % (no, k), inv, st, s, kind='inv-init', old=self.entry, out=st.out,
                             env=dict(st.env))
        h = self.havoc_for_loop(st, s, spec)
        h.env[var] = SV(INT, fresh(var, I))
        for inv in invs:
            self.assume_spec(inv, h, old=self.entry, out=h.out)
        b, e = h.copy(), h.copy()
        b.assume(more(b.env[var].z))
        e.assume(z3.Not(more(e.env[var].z)))
        outs = []
        for o in self.block(s.body, [b]):
            if o.kind in ('next', 'continue'):
                s3 = o.st
                self.check_stable_types(h, s3, s)
                s3.env[var] = SV(INT, s3.env[var].z + step) if var not in self.assigned_names(ast.Module(body=s.body, type_ignores=[])) \
                    else SV(INT, b.env[var].z + step)
                for k, inv in enumerate(invs):
                    self.oblige_spec('inv-keep.L%d.i%d' % (no, k), inv, s3, s, kind='inv-keep', old=self.entry, out=s3.out)
            elif o.kind == 'break':
                outs.append(_out('next', o.st))
            else:
                outs.append(o)
        # after exhaustion python leaves var at its last value (or unbound); it is not used by the verified code after loops
        if s.orelse:
            outs += self.block(s.orelse, [e])
        else:
            outs.append(_out('next', e))
        return outs

    def _indexed_loop(self, s, st, no, spec, it, kname, enum):
        """for x in <finite sequence>: ghost index _i<no>; the element sequence is _s<no> (arbitrary enumeration for dict/set)"""
        kind = it[0]
        if kind == 'seq':
            get_seq = lambda state: it[1]
        elif kind == 'list':
            get_seq = lambda state: state.list_seq(it[1])          # live view: python re-reads the list every iteration
        else:
            get_seq = None
            sq = self.enumeration(it, st)
            get_seq = lambda state: sq
        sname = '_s%d' % no
        st.env[kname] = SV(INT, z3.IntVal(0))
        st.env[sname] = get_seq(st)

        def pre_body(b):
            sq = get_seq(b)
            b.env[sname] = sq
            k = b.env[kname].z
            more, done = b, b.copy()
            more.assume(k < sq.n)
            done.assume(z3.Not(k < sq.n))
            x = SV(sq.elem, z3.Select(sq.arr, k))
            self.assume_typed(x, more, depth=0)
            val = mk_tuple(TTuple(INT, x.ty), [k, x.z]) if enum else x
            return self.assign(s.target, val, more, s), [done]

        def post_iter(s3):
            s3.env[kname] = SV(INT, s3.env[kname].z + 1)
            s3.env[sname] = get_seq(s3)          # a list is re-read on every iteration: the invariant talks about its current content

        # the index is engine-owned: make sure it is havocked with the other loop-assigned names
        fake = ast.Name(id=kname, ctx=ast.Store())
        s._ghost_targets = [fake]
        spec2 = dict(spec)
        spec2['inv'] = ['0 <= %s' % kname, '%s <= len(%s)' % (kname, sname)] + list(spec.get('inv', []))
        return self.run_loop(s, st, no, spec2, test=None, pre_body=pre_body, post_iter=post_iter,
                             refresh=(lambda h: h.env.__setitem__(sname, get_seq(h))) if kind == 'list' else None)

    def enumeration(self, it, st):
        """arbitrary duplicate-free enumeration of a set / dict: any iteration order (hash-seed independence is forced)"""
        kind = it[0]
        c = it[1]
        kt = c.ty.args[0]
        ks = sort_of(kt)
        arr = fresh('enum', z3.ArraySort(I, ks))
        n = fresh('enum_n', I)
        i, j = z3.Ints('i!en j!en')
        x = z3.Const('x!en', ks)
        mem = st.ddom(c.z, ks) if kind == 'dict' else st.smem(c.z, ks)
        idx = z3.Function('enum_idx!%d' % next(__import__('pyvc.ty', fromlist=['_fresh'])._fresh), ks, I)
        st.assume(n >= 0, n == self.card(c, st),
                  z3.ForAll([i], z3.Implies(z3.And(0 <= i, i < n), z3.And(z3.Select(mem, arr[i]), idx(arr[i]) == i)), patterns=[arr[i]]),
                  z3.ForAll([x], z3.Implies(z3.Select(mem, x), z3.And(0 <= idx(x), idx(x) < n, arr[idx(x)] == x)), patterns=[z3.Select(mem, x)]))
        if kind == 'dict' and it[2] != 'keys':
            vt = c.ty.args[1]
            vals = st.dval(c.z, ks, sort_of(vt))
            if it[2] == 'values':
                varr = fresh('enumv', z3.ArraySort(I, sort_of(vt)))
                st.assume(z3.ForAll([i], z3.Implies(z3.And(0 <= i, i < n), varr[i] == z3.Select(vals, arr[i])), patterns=[varr[i]]))
                return SeqV(vt, varr, n)
            tt = TTuple(kt, vt)
            parr = fresh('enumkv', z3.ArraySort(I, sort_of(tt)))
            mk = sort_of(tt).constructor(0)
            st.assume(z3.ForAll([i], z3.Implies(z3.And(0 <= i, i < n), parr[i] == mk(arr[i], z3.Select(vals, arr[i]))), patterns=[parr[i]]))
            return SeqV(tt, parr, n)
        return SeqV(kt, arr, n)

    def assigned_names(self, node):
        names = set()
        for n in ast.walk(node):
            if isinstance(n, ast.Name) and isinstance(n.ctx, (ast.Store, ast.Del)):
                names.add(n.id)
        for g in getattr(node, '_ghost_targets', []):
            names.add(g.id)
        return names

    # ------------------------------------------------------------------ nested defs / with
    def st_FunctionDef(self, s, st):
        self.closures[s.name] = s
        return [_out('next', st)]

    def st_With(self, s, st):
        """with <expr> [as name]: body.  The context manager is any value (contract of the call); __exit__ is assumed not to
        swallow exceptions and not to raise (files, locks); suppress(...) is handled as try/except pass."""
        if len(s.items) != 1:
            _unsup('with: several items', s)
        item = s.items[0]
        ce = item.context_expr
        if isinstance(ce, ast.Call) and isinstance(ce.func, ast.Name) and ce.func.id == 'suppress':
            handler = ast.ExceptHandler(type=ce.args[0] if len(ce.args) == 1 else ast.Tuple(elts=list(ce.args), ctx=ast.Load()), name=None, body=[ast.Pass()])
            t = ast.Try(body=s.body, handlers=[handler], orelse=[], finalbody=[])
            ast.copy_location(t, s)
            ast.fix_missing_locations(t)
            return self.st_Try(t, st)
        outs = []
        for v, s2 in self.ev(ce, st):
            states = [s2]
            if item.optional_vars is not None:
                states = self.assign(item.optional_vars, v, s2, s)
            outs += self.block(s.body, states)
        return outs
