"""Per-property runner: generate obligations from the current /repo tree, discharge, replay, write evidence, exit code.

exit 0 held | 1 VIOLATION (refuted obligation / bounded stand-in failure / regression of a baseline obligation on changed code)
     2 undecided (never a VIOLATION line) | 3 checker problem (vacuity guard, crash)
"""
import argparse
import hashlib
import importlib
import json
import os
import subprocess
import sys
import time
import traceback

HERE = os.path.dirname(os.path.dirname(os.path.abspath(__file__)))
sys.path.insert(0, HERE)

from pyvc.registry import Registry
from pyvc.engine import FnVerifier, Unsupported
from pyvc import specs, solve, extract
from pyvc.state import key_fld
from pyvc.ty import sort_of

NATIVE_PY = os.environ.get('VERIF_NATIVE_PY', '/venv/bin/python')


def load_registry(prop):
    reg = Registry()
    common = importlib.import_module('contracts.common')
    common.register(reg)
    mod = importlib.import_module('contracts.' + prop)
    mod.register(reg)
    declare_heap_keys(reg)
    # mechanical guard against clauses weakened into tautologies
    import re as _re
    for c in reg.contracts.values():
        clauses = list(c.ensures) + list(c.requires) + [x for v in (c.raises or {}).values() for x in v] + list(c.ghost.get('ensures_fall', []))
        for cl in clauses:
            txt = cl[0] if isinstance(cl, tuple) else cl
            if isinstance(txt, str) and _re.search(r'\bor\s+True\b|\bif\s+False\b', txt):
                raise SystemExit('CHECKER-ERROR vacuous clause in contract %s: %s' % (c.target, txt[:120]))
    return reg, mod


def declare_heap_keys(reg):
    """declare every heap component the declared types can touch, so that havocs (loops, calls) cover them and no component is
    first materialised after a havoc"""
    from pyvc.state import key_len, key_arr, key_dom, key_val, key_mem, key_card, key_alloc
    seen = set()

    def walk(t):
        if t in seen:
            return
        seen.add(t)
        k = t.kind
        if k in ('list', 'seq'):
            key_len(); key_arr(sort_of(t.args[0]))
        elif k == 'dict':
            key_dom(sort_of(t.args[0])); key_val(sort_of(t.args[0]), sort_of(t.args[1])); key_card()
        elif k == 'set':
            key_mem(sort_of(t.args[0])); key_card()
        for a in t.args:
            if hasattr(a, 'kind'):
                walk(a)
    key_alloc()
    for c in reg.classes.values():
        for f, ty in c.fields.items():
            key_fld(c.name, f, sort_of(ty))
            walk(ty)
        for f, ty in c.consts.items():
            walk(ty)
    for c in reg.contracts.values():
        for _, ty in c.params:
            walk(ty)
        walk(c.returns)
        if c.generator is not None:
            walk(c.generator)
        for ty in c.types.values():
            walk(ty)


def run_native(code, timeout=120, args=()):
    """run a python snippet against the real code in /repo under the interpreter the test-suite uses"""
    env = dict(os.environ, VERIF_HOME=HERE, PYTHONPATH=extract.REPO + os.pathsep + HERE, PYTHONHASHSEED=os.environ.get('PYTHONHASHSEED', '0'))
    try:
        p = subprocess.run([NATIVE_PY, '-c', code] + list(args), capture_output=True, text=True, timeout=timeout, cwd=extract.REPO, env=env)
    except subprocess.TimeoutExpired:
        return {'error': 'timeout after %ds' % timeout, 'timeout': True}
    lines = [l for l in p.stdout.splitlines() if l.startswith('{')]
    if not lines:
        return {'error': 'no json output', 'stdout': p.stdout[-2000:], 'stderr': p.stderr[-3000:], 'rc': p.returncode}
    try:
        return json.loads(lines[-1])
    except Exception as ex:
        return {'error': 'bad json: %s' % ex, 'stdout': p.stdout[-2000:]}


def main(argv=None):
    ap = argparse.ArgumentParser()
    ap.add_argument('prop')
    ap.add_argument('--tier', default=os.environ.get('VERIF_TIER', 'quick'))
    ap.add_argument('--write-baseline', action='store_true')
    ap.add_argument('--only', default=None)
    ap.add_argument('--verbose', '-v', action='store_true')
    ap.add_argument('--no-bounded', action='store_true')
    ap.add_argument('--no-evidence', action='store_true', help='do not rewrite evidence/<id>.json (mutation runs on scratch copies)')
    a = ap.parse_args(argv)
    seed = int(os.environ.get('VERIF_SEED', '0') or 0)
    t_start = time.time()
    try:
        code = _main(a, seed, t_start)
    except SystemExit:
        raise
    except Exception:
        traceback.print_exc()
        print('CHECKER-ERROR property=%s (exit 3)' % a.prop)
        code = 3
    sys.exit(code)


def _main(a, seed, t_start):
    prop = a.prop
    tier = a.tier if a.tier in ('quick', 'thorough') else 'quick'
    mod = importlib.import_module('contracts.' + prop)
    units = getattr(mod, 'UNITS', [prop])      # a property may re-use the kernels (contract files) of others: one registry per unit
    obls, functions, undecided_fns, per_fn, regs = [], [], [], {}, []
    from pyvc import state as _state
    foreign_clauses = []
    for unit in units:
        _state._key_sorts.clear()
        _state._entry_arrays.clear()
        reg, umod = load_registry(unit)
        regs.append((reg, umod))
        ev = specs.compile_specfuns(reg)
        todo = [c for c in reg.contracts.values() if not c.assumed and prop in c.serves and not (a.only and a.only not in c.target)]
        if not todo:
            continue
        obls += specs.prefix_lemma_obligations(reg, prop) + specs.concat_lemma_obligations(reg, prop) + specs.lemma_obligations(reg, ev, prop)
        for c in todo:
            try:
                d = extract.describe(c.target)
                v = FnVerifier(reg, c, prop, axioms=global_axioms(reg, ev))
                got = v.run()
                # a clause carrying a finding recorded under another property belongs to that property's check only
                # (its `outside-` twin, the clause away from the recorded inputs, stays)
                foreign = {k['id'] for k in load_all_known() if k.get('status') == 'known' and k.get('property') != prop}
                drop = [o for o in got if any(('.known-%s' % f) in o.name for f in foreign)]
                foreign_clauses.extend(o.name for o in drop)
                got = [o for o in got if o not in drop]
                per_fn[v.fname] = per_fn.get(v.fname, []) + got
                obls += got
                d['obligations'] = len(got)
                d['contract_file'] = 'contracts/%s.py' % unit
                functions.append(d)
            except (Unsupported, extract.ExtractError) as ex:
                undecided_fns.append({'target': c.target, 'reason': str(ex)})
            except RecursionError as ex:
                undecided_fns.append({'target': c.target, 'reason': 'recursion limit in generator'})
    reg = MergedReg(regs)
    # unique names
    seen = {}
    for o in obls:
        if o.name in seen:
            seen[o.name] += 1
            o.name = '%s~%d' % (o.name, seen[o.name])
        else:
            seen[o.name] = 0
    timeout_ms = int(os.environ.get('VERIF_SMT_TIMEOUT_MS', '20000' if tier == 'quick' else '60000'))
    t0 = time.time()
    results = solve.discharge(obls, timeout_ms=timeout_ms, seed=seed, second=(tier == 'thorough'))
    solver_wall = time.time() - t0

    baseline = load_baseline(prop)
    changed_fns = set()
    for f in functions:
        b = baseline.get('functions', {}).get(f['target'])
        if b is not None and b != f['sha256']:
            changed_fns.add(f['target'])
    for u in undecided_fns:
        try:
            d = extract.describe(u['target'])
            b = baseline.get('functions', {}).get(u['target'])
            if b is not None and b != d['sha256']:
                changed_fns.add(u['target'])
        except Exception:
            changed_fns.add(u['target'])

    real = [o for o in obls if not o.expect_sat]
    discharged, refuted, undecided, vacuity = [], [], [], []
    by_backend = {}
    solver_time = 0.0
    disagree = []
    for o in obls:
        r = results[o.name]
        solver_time += r['time']
        if o.expect_sat:
            if r['result'] == 'unsat':
                vacuity.append(o)
            continue
        if r['result'] == 'unsat':
            if tier == 'thorough' and r.get('second') == 'sat':
                disagree.append(o)
            discharged.append(o)
            by_backend[r['by']] = by_backend.get(r['by'], 0) + 1
        elif r['result'] == 'sat':
            refuted.append(o)
        else:
            undecided.append(o)
    # second, calm attempt for what stayed undecided: the pool has drained (no contention between 16 workers any more), fewer processes,
    # three times the budget - a timeout caused by load must not decide anything.  Bounded in number so that a change which breaks many
    # obligations at once does not cost minutes.
    if undecided and not os.environ.get('VERIF_NO_RETRY'):
        env_fast = os.environ.pop('VERIF_FAST_UNKNOWN', None)       # (mutation tooling: fewer and shorter second attempts)
        cand = [o for o in undecided if '.known-' not in o.name]        # (a clause with a recorded finding is expected to stay open)
        retry = cand[:24] if env_fast is None else cand[:8]
        try:
            again = solve.discharge(retry, timeout_ms=timeout_ms * (3 if env_fast is None else 1), seed=seed + 7, procs=8)
        finally:
            if env_fast is not None:
                os.environ['VERIF_FAST_UNKNOWN'] = env_fast
        for o in retry:
            r2 = again[o.name]
            solver_time += r2['time']
            r2['tried'] = results[o.name]['tried'] + [('retry',) + tuple(t) for t in r2['tried']]
            if r2['result'] == 'unsat':
                results[o.name] = r2
                undecided.remove(o)
                discharged.append(o)
                by_backend[r2['by']] = by_backend.get(r2['by'], 0) + 1
            elif r2['result'] == 'sat' and r2.get('model') is not None:
                results[o.name] = r2
                undecided.remove(o)
                refuted.append(o)
    # vacuity: requires unsatisfiable, or every exit of a function unreachable
    vac_problems = []
    for fname, got in per_fn.items():
        covers = [o for o in got if o.kind == 'cover']
        canaries = [o for o in got if o.kind == 'canary']
        if any(results[o.name]['result'] == 'unsat' for o in covers):
            vac_problems.append('%s: precondition unsatisfiable' % fname)
        if canaries and all(results[o.name]['result'] == 'unsat' for o in canaries):
            vac_problems.append('%s: no normal exit reachable (false canary verified)' % fname)
        if not [o for o in got if not o.expect_sat]:
            vac_problems.append('%s: zero obligations' % fname)

    # ---- bounded stand-ins (never counted as obligations)
    bounded = []
    if not a.no_bounded:
        for b in getattr(mod, 'BOUNDED', []):
            if a.only and a.only not in b['name']:
                continue
            res = run_native(b['code'], timeout=b.get('timeout', {'quick': 240, 'thorough': 3000})[tier] if isinstance(b.get('timeout'), dict) else b.get('timeout', 600),
                             args=[tier, str(seed)])
            res['name'] = b['name']
            res['function'] = b.get('function')
            res['bound'] = b.get('bound', {}).get(tier) if isinstance(b.get('bound'), dict) else b.get('bound')
            bounded.append(res)

    # ---- known findings
    kf = load_known(prop)
    known_lines, known_match = [], []
    for k in kf:
        if k.get('status') != 'known':
            continue
        still = None
        if k.get('witness_code'):
            wr = run_native(k['witness_code'], timeout=60)
            still = bool(wr.get('fails')) if 'error' not in wr or wr.get('timeout') else None
            if wr.get('timeout') and k.get('witness_timeout_is_failure'):
                still = True
        k['_still'] = still
        if still is not False:
            known_lines.append('KNOWN-FINDING: property=%s %s' % (prop, k['text']))

    def is_known(name, detail=None):
        import re as _re
        m = _re.search(r'\.known-([A-Za-z0-9]+)', name)
        if m:
            for k in kf:
                if k.get('status') == 'known' and k.get('id') == m.group(1):
                    k['_hit'] = True
                    return k
            return None
        for k in kf:
            if k.get('status') == 'known' and k.get('_still') is not False:
                for pat in k.get('obligations', []):
                    if pat in name:
                        return k
        return None

    known_undecided = [o for o in undecided if '.known-' in o.name and is_known(o.name) is not None]
    undecided = [o for o in undecided if o not in known_undecided]
    for o in known_undecided:
        known_match.append((o.name, is_known(o.name)['id']))
    # ---- violations
    violations = []
    os.makedirs(os.path.join(HERE, 'replays', prop), exist_ok=True)

    def replay_path(name):
        h = hashlib.sha1(name.encode()).hexdigest()[:10]
        safe = ''.join(ch if ch.isalnum() or ch in '._-' else '_' for ch in name.split('/', 1)[-1])[:80]
        return os.path.join(HERE, 'replays', prop, '%s-%s.json' % (safe, h))

    contracts_by_fname = {'%s.%s' % (c.module, c.qualname): c for c in reg.contracts.values()}
    for o in refuted:
        k = is_known(o.name)
        if k is not None:
            known_match.append((o.name, k['id']))
            continue
        r = results[o.name]
        c = contracts_by_fname.get(o.func)
        rep = {'property': prop, 'obligation': o.name, 'kind': o.kind, 'function': o.func, 'line': o.line, 'text': o.text,
               'solver': r['tried'], 'model': r.get('model'), 'verdict': 'refuted'}
        found = try_replay(c, r.get('model'), rep)
        path = replay_path(o.name)
        json.dump(rep, open(path, 'w'), indent=1, default=str)
        violations.append((o.name, path, found))
    # undischarged obligations that were discharged on the baseline tree, in a function whose source changed
    regress = []
    for o in undecided:
        c = contracts_by_fname.get(o.func)
        if c is not None and c.target in changed_fns and base_name(o.name) in baseline.get('discharged', []):
            if is_known(o.name) is not None:
                continue
            r = results[o.name]
            rep = {'property': prop, 'obligation': o.name, 'kind': o.kind, 'function': o.func, 'line': o.line, 'text': o.text,
                   'solver': r['tried'], 'reason_unknown': r.get('reason'), 'verdict': 'was discharged on the baseline tree; not discharged by any back end on the changed source'}
            found = try_replay(c, None, rep)
            path = replay_path(o.name)
            json.dump(rep, open(path, 'w'), indent=1, default=str)
            violations.append((o.name, path, found))
            regress.append(o)
    undecided = [o for o in undecided if o not in regress]
    # functions that left the subset after a source change: bounded native search of their contract is the only thing left
    for u in list(undecided_fns):
        c = reg.contracts[u['target']]
        if u['target'] in changed_fns and c.replay is not None:
            rep = {'property': prop, 'obligation': '%s/%s.%s/subset' % (prop, c.module, c.qualname), 'function': u['target'],
                   'verdict': 'function left the verified subset after a source change: ' + u['reason']}
            found = try_replay(c, None, rep)
            if found:
                path = replay_path(rep['obligation'])
                json.dump(rep, open(path, 'w'), indent=1, default=str)
                violations.append((rep['obligation'], path, True))
    for b in bounded:
        if b.get('failures'):
            fresh_fail = []
            for f in b['failures']:
                k = None
                for kk in kf:
                    if kk.get('status') == 'known' and kk.get('_still') is not False and any(p in str(f.get('key', '')) or p in b['name'] + ':' + str(f.get('key', '')) for p in kk.get('bounded_keys', [])):
                        k = kk
                if k is None:
                    fresh_fail.append(f)
                else:
                    known_match.append((b['name'] + ':' + str(f.get('key')), k['id']))
            if fresh_fail:
                rep = {'property': prop, 'obligation': '%s/bounded.%s' % (prop, b['name']), 'verdict': 'bounded stand-in found failing input(s)',
                       'failures': fresh_fail[:20], 'bounded': True, 'replay_code': b.get('replay_code')}
                path = replay_path(rep['obligation'])
                json.dump(rep, open(path, 'w'), indent=1, default=str)
                violations.append((rep['obligation'], path, True))
        elif 'error' in b:
            vac_problems.append('bounded stand-in %s did not run: %s' % (b['name'], str(b)[:400]))

    # ---- report
    wall = time.time() - t_start
    n_ob, n_dis = len(real), len(discharged)
    n_known_ref = len([1 for o in refuted if is_known(o.name) is not None]) + len(known_undecided)
    evidence = {
        'property_id': prop, 'tier': tier, 'seed': seed, 'level': 'proof',
        'coverage': {
            'obligations': n_ob - n_known_ref, 'discharged': n_dis,
            'checker_cmd': './check %s --tier %s' % (prop, tier),
            'trusted_base': reg.trusted + [t for t in getattr(mod, 'TRUSTED', []) if t not in reg.trusted] + COMMON_TRUSTED,
            'samples': [sample(o, results[o.name]) for o in pick_samples(real)],
            'slowest': [sample(o, results[o.name]) for o in sorted(real, key=lambda o: -results[o.name]['time'])[:8]],
            'functions_under_contract': functions,
            'assumed_contracts': sorted(c.target for c in reg.contracts.values() if c.assumed and used_by(c, prop)),
            'by_backend': by_backend, 'solver_time_s': round(solver_time, 2), 'solver_wall_s': round(solver_wall, 2),
            'undecided': [o.name for o in undecided] + ['%s: %s' % (u['target'], u['reason']) for u in undecided_fns],
            'refuted': [o.name for o in refuted],
            'vacuity_guards': {'covers_and_canaries': len(obls) - len(real), 'problems': vac_problems},
            'bounded_standins': [{k: v for k, v in b.items() if k in ('name', 'function', 'bound', 'evaluations', 'distinct', 'failures', 'error', 'exhaustive', 'note')} for b in bounded],
            'known_findings': [k['id'] for k in kf if k.get('status') == 'known'],
            'known_findings_matched': known_match, 'clauses_checked_under_another_property': foreign_clauses,
            'second_solver_disagreements': [o.name for o in disagree],
            'lemmas': sorted(reg.lemmas), 'spec_functions': sorted(reg.specfuns),
            'explanation': getattr(mod, 'EXPLANATION', ''),
        },
        'assumptions': reg.assumptions + [t for t in getattr(mod, 'ASSUMPTIONS', []) if t not in reg.assumptions] + COMMON_ASSUMPTIONS,
        'wall_s': round(wall, 2), 'violations': len(violations),
    }
    os.makedirs(os.path.join(HERE, 'evidence'), exist_ok=True)
    if not (a.no_evidence or os.environ.get('VERIF_NO_EVIDENCE')):
        json.dump(evidence, open(os.path.join(HERE, 'evidence', prop + '.json'), 'w'), indent=1, default=str)

    if a.write_baseline:
        json.dump({'functions': {f['target']: f['sha256'] for f in functions},
                   'discharged': sorted(base_name(o.name) for o in discharged)},
                  open(os.path.join(HERE, 'baseline', prop + '.json'), 'w'), indent=1)

    for l in known_lines:
        print(l)
    print('%s: %d obligations, %d discharged (%s), %d refuted, %d undecided, %d functions, %d bounded stand-ins, %.1fs' % (
        prop, n_ob, n_dis, ', '.join('%s:%d' % kv for kv in sorted(by_backend.items())), len(refuted), len(undecided) + len(undecided_fns), len(functions), len(bounded), wall))
    if a.verbose or undecided or undecided_fns or vac_problems:
        for o in undecided:
            print('  undecided: %s  [%s] %s' % (o.name, results[o.name].get('reason', ''), o.text[:80]))
        for u in undecided_fns:
            print('  undecided function: %s: %s' % (u['target'], u['reason']))
        for v in vac_problems:
            print('  vacuity: %s' % v)
    if a.verbose:
        for o in obls:
            if results[o.name]['time'] > 2:
                print('  slow: %s %.1fs %s' % (o.name, results[o.name]['time'], results[o.name]['tried']))
        for o in refuted:
            print('  refuted: %s  %s' % (o.name, o.text[:100]))
    for name, path, found in violations:
        print('  violated obligation: %s' % name)
        print('VIOLATION property=%s replay=%s%s' % (prop, path, '' if found else ' no-failing-input-found'))
    if violations:
        return 1
    if vac_problems or disagree:
        return 3
    if undecided or undecided_fns:
        return 2
    return 0


class MergedReg:
    """read-only union of the unit registries for reporting"""

    def __init__(self, regs):
        self.contracts, self.lemmas, self.specfuns = {}, {}, {}
        self.trusted, self.assumptions = [], []
        for r, m in regs:
            self.contracts.update(r.contracts)
            self.lemmas.update(r.lemmas)
            self.specfuns.update(r.specfuns)
            for t in getattr(m, 'TRUSTED', []):
                if t not in self.trusted:
                    self.trusted.append(t)
            for t in getattr(m, 'ASSUMPTIONS', []):
                if t not in self.assumptions:
                    self.assumptions.append(t)


COMMON_TRUSTED = [
    'pyvc VC generator (/verif/pyvc): AST -> SMT translation of the stated Python subset (DESIGN.md 2.2)',
    'z3 5.1 (python API); cvc5 1.0.3 and z3 4.8.12 command lines for unknowns / thorough-tier agreement',
]
COMMON_ASSUMPTIONS = [
    'Python ints are mathematical integers (exact for CPython); MemoryError/RecursionError/KeyboardInterrupt not modelled',
    'method and attribute resolution is static, from the classes declared in the contract files',
    'set/frozenset iteration order is arbitrary (universally quantified); dict order is insertion order only where stated',
    'calls are replaced by the callee contract; contracts marked assumed (externals: re, builtins) are not verified',
]


def global_axioms(reg, ev):
    if not hasattr(reg, '_compiled_axioms'):
        reg._compiled_axioms = specs.compile_axioms(reg, ev)
    return reg._compiled_axioms


def used_by(c, prop):
    return prop in c.serves or not c.serves


def base_name(name):
    """obligation name without source positions and path ordinals: stable under edits that move code"""
    import re
    return re.sub(r'~\d+$', '', re.sub(r'@-?\d+\.\d+', '', name))


def load_baseline(prop):
    p = os.path.join(HERE, 'baseline', prop + '.json')
    if os.path.exists(p):
        return json.load(open(p))
    return {}


def load_all_known():
    p = os.path.join(HERE, 'known_findings.json')
    return json.load(open(p)) if os.path.exists(p) else []


def load_known(prop):
    p = os.path.join(HERE, 'known_findings.json')
    if not os.path.exists(p):
        return []
    return [k for k in json.load(open(p)) if k.get('property') == prop]


def pick_samples(real):
    kinds = {}
    for o in real:
        kinds.setdefault(o.kind, o)
    return list(kinds.values())[:8]


def sample(o, r):
    return {'obligation': o.name, 'kind': o.kind, 'line': o.line, 'text': o.text, 'hypotheses': len(o.hyps),
            'result': r['result'], 'by': r['by'], 'time_s': round(r['time'], 3)}


_REPLAY_CACHE = {}


def try_replay(c, model, rep):
    """replay the counter-model natively; if it does not reproduce, bounded native search of the same contract"""
    if c is None or c.replay is None:
        rep['replay'] = 'no native replay builder for this contract'
        return False
    try:
        code = c.replay(model or {})
    except Exception as ex:
        rep['replay'] = 'replay builder failed: %r' % (ex,)
        return False
    if code is None:
        rep['replay'] = 'no replay for this obligation'
        return False
    key = hashlib.sha256(code.encode()).hexdigest()
    if key not in _REPLAY_CACHE:           # the same native search serves every obligation of a function: run it once per run
        _REPLAY_CACHE[key] = run_native(code, timeout=120)
    res = _REPLAY_CACHE[key]
    rep['replay_code'] = code
    # a failure that is exactly a recorded known finding (of any property) is not a failing input for THIS obligation
    known_keys = [p for k in load_all_known() if k.get('status') == 'known' for p in k.get('bounded_keys', [])]
    fl = res.get('failures')
    if isinstance(fl, list) and fl and all(isinstance(f, dict) for f in fl):
        new = [f for f in fl if not any(p in str(f.get('key', '')) for p in known_keys)]
        if len(new) != len(fl):
            res = dict(res, failures=new, fails=bool(new), known_failures_ignored=[f.get('key') for f in fl if f not in new])
            if new:
                res.update(input=new[0].get('input'), observed=new[0].get('observed'), required=new[0].get('required'))
            else:
                for k_ in ('input', 'observed', 'required'):
                    res.pop(k_, None)
    rep['replay_result'] = res
    return bool(res.get('fails'))


if __name__ == '__main__':
    main()
