"""helpers for contract files"""


def mget(model, name, default=None):
    """value of the symbolic input `name` in a counter-model ({'n!0': '8', ...}) as python int/str"""
    for k, v in (model or {}).items():
        if k.split('!')[0] == name:
            v = v.strip()
            try:
                return int(v)
            except ValueError:
                pass
            if v.startswith('- '):
                try:
                    return -int(v[2:])
                except ValueError:
                    pass
            if v.startswith('"') and v.endswith('"'):
                return v[1:-1]
            return v
    return default


import os
HERE = os.path.dirname(os.path.dirname(os.path.abspath(__file__)))


def native_file(rel):
    """source text of a native (CPython, real lark) check kept under /verif/bounded"""
    return open(os.path.join(HERE, rel)).read()
