"""Engine self-test: a fixed set of deliberate property-breaking mutations of lark, each applied to a scratch copy of the working tree,
must be reported as a violation by the named check; the unmutated copy must pass.  A verifier that accepts a mutant is unsound (or the
contract is vacuous) - this is the cheapest guard against both.   ./check selftest [-k substring] [--keep-going]

Scratch copies are created with tempfile outside /repo and /verif and removed immediately."""
import argparse
import os
import re
import shutil
import subprocess
import sys
import tempfile
import time

HERE = os.path.dirname(os.path.dirname(os.path.abspath(__file__)))
REPO = os.environ.get('VERIF_REPO', '/repo')

# (name, property, --only filter, file, regex, replacement)
MUTANTS = [
    ('small_factors drops the remainder', 'C09', 'small_factors', 'lark/utils.py', r'return small_factors\(r, max_factor\) \+ \[\(a, b\)\]', 'return small_factors(r, max_factor) + [(a, 0)]'),
    ('repeat rule swaps a and b', 'C09', '_add_repeat_rule', 'lark/load_grammar.py', r'\[target\] \* a \+ \[atom\] \* b', '[target] * b + [atom] * a'),
    ('opt rule one alternative too many', 'C09', '_add_repeat_opt_rule', 'lark/load_grammar.py', r"\[target\]\*i \+ \[target_opt\]\) for i in range\(a\)", '[target]*i + [target_opt]) for i in range(a + 1)'),
    ('generate_repeats off by one', 'C09', '_generate_repeats', 'lark/load_grammar.py', r'diff = mx - mn \+ 1 ', 'diff = mx - mn '),
    ('terminal quantifier {n} becomes {n,}', 'C09', 'TerminalTreeToPattern', 'lark/load_grammar.py', r'op = "\{%d\}" % int\(args\[2\]\)', 'op = "{%d,}" % int(args[2])'),
    ('line counter forgets the column reset', 'C06', 'LineCounter.feed', 'lark/lexer.py', r'self\.line_start_pos = self\.char_pos \+ token\.rindex\(self\.newline_char\) \+ 1', 'self.line_start_pos = self.char_pos + token.rindex(self.newline_char)'),
    ('dynamic scanner: bytes newline test removed', 'C06', 'xearley', 'lark/parsers/xearley.py', r"if token == '\\n' or token == 10:", r"if token == '\\n':"),
    ('container span not widened', 'C06', 'PropagatePositions', 'lark/parse_tree_builder.py', r"res_meta\.container_end_pos = getattr\(last_meta, 'container_end_pos', last_meta\.end_pos\)", "res_meta.container_end_pos = last_meta.end_pos"),
    ('indenter: dedent loop closes one level too many', 'C18', 'Indenter.handle_NL', 'lark/indenter.py', r'while indent < self\.indent_level\[-1\]:', 'while indent <= self.indent_level[-1] and len(self.indent_level) > 1:'),
    ('indenter: inconsistent dedent not reported', 'C18', 'Indenter.handle_NL', 'lark/indenter.py', r'if indent != self\.indent_level\[-1\]:', 'if indent + 1 < self.indent_level[-1]:'),
    ('cache: body digest not compared', 'C12', 'Lark.__init__', 'lark/lark.py', r" and body_sha256 == sha256_digest\(body\.decode\('latin-1'\)\)\.encode\('utf8'\):", ':'),
    ('cache key drops an option', 'C12', 'Lark.__init__', 'lark/lark.py', r"unhashable = \('transformer', 'postlex', 'lexer_callbacks', 'edit_terminals', '_plugins'\)", "unhashable = ('transformer', 'postlex', 'lexer_callbacks', 'edit_terminals', '_plugins', 'start')"),
    ('interactive copy shares the value stack', 'C13', 'ParserState.copy', 'lark/parsers/lalr_parser_state.py', r'deepcopy\(self\.value_stack\) if deepcopy_values else copy\(self\.value_stack\)', 'self.value_stack'),
    ('child filter drops the placeholder of the last entry', 'C03', 'ChildFilter', 'lark/parse_tree_builder.py', r'filtered \+= \[None\] \* self\.append_none', 'filtered += [None] * (self.append_none - 1)'),
    ('mangle forgets the prefix for underscore names', 'C17', 'mangle', 'lark/load_grammar.py', r"s = '_%s__%s' % \(prefix, s\[1:\]\)", "s = '_%s' % (s[1:],)"),
    ('start search runs over the scanner list (folded keywords gone)', 'C14', 'search_scanner', 'lark/lexer.py', r'\[t for t in self\.terminals if t\.name not in self\.ignore_types\]', '[t for t in self.scanner.terminals if t.name not in self.ignore_types]'),
    ('priority=None leaves one terminal priority in place', 'C05', 'Lark.__init__', 'lark/lark.py', r'            for term in self\.terminals:\n                term\.priority = 0', '            for term in self.terminals[1:]:\n                term.priority = 0'),
    ('start search over the IGNORED terminals', 'C14', 'search_scanner', 'lark/lexer.py', r'if t\.name not in self\.ignore_types\]', 'if t.name in self.ignore_types]'),
    ('rules keep the Grammar object\'s own options', 'C10', 'own-options', 'lark/load_grammar.py', r'options = copy\(options\)     # Lark', 'options = options     # Lark'),
    ('dynamic lexer guard tests the start offset only', 'C15', 'dynamic-guard', 'lark/parser_frontends.py', r'                if not text\.is_complete_text\(\):\n                    raise TypeError\(f"Lexer', '                if text.start != 0:\n                    raise TypeError(f"Lexer'),
    ('indenter: deep newline tokens bypass handle_NL', 'C18', 'Indenter._process', 'lark/indenter.py', r'                yield from self\.handle_NL\(token\)', '                if len(self.indent_level) < 3:\n                    yield from self.handle_NL(token)\n                else:\n                    yield token'),
    ('terminal width measured on the bare pattern text', 'C07', '_get_width', 'lark/lexer.py', r'get_regexp_width\(self\.to_regexp\(\)\)', 'get_regexp_width(self.value)'),
    ('transformer visits children right to left', 'C16', '_transform_children', 'lark/visitors.py', r'for c in children:\n(\s+)if isinstance\(c, Tree\):', r'for c in reversed(children):\n\1if isinstance(c, Tree):'),
]


def run_check(repo, prop, only):
    env = dict(os.environ, VERIF_REPO=repo, VERIF_FAST_UNKNOWN='1')
    cmd = [os.path.join(HERE, 'check'), prop, '--no-bounded', '--no-evidence'] + (['--only', only] if only else [])
    p = subprocess.run(cmd, env=env, stdout=subprocess.PIPE, stderr=subprocess.STDOUT, text=True, timeout=1800)
    return p.returncode, p.stdout


def main():
    ap = argparse.ArgumentParser()
    ap.add_argument('-k', default=None)
    ap.add_argument('--keep-going', action='store_true')
    a = ap.parse_args()
    bad = 0
    t0 = time.time()
    if not a.k:
        # wiring guard: a contract that `serves` a property must be generated under it
        p = subprocess.run([sys.executable, os.path.join(HERE, 'tools', 'audit_units.py')], stdout=subprocess.PIPE, stderr=subprocess.STDOUT, text=True)
        print(p.stdout.strip().splitlines()[-1] if p.stdout.strip() else 'audit: no output')
        if p.returncode != 0:
            bad += 1
            print(p.stdout)
    for name, prop, only, path, pat, rep in MUTANTS:
        if a.k and a.k not in name and a.k != prop:
            continue
        d = tempfile.mkdtemp(prefix='pyvc-selftest-')
        try:
            subprocess.run(['rsync', '-a', '--exclude', '.git', '--exclude', '__pycache__', REPO + '/', d + '/'], check=True)
            f = os.path.join(d, path)
            src = open(f, encoding='utf-8').read()
            new, n = re.subn(pat, rep, src, count=1)
            if n != 1:
                print('SELFTEST-SKIP %-55s pattern not found in %s (the code moved: update the mutant)' % (name, path))
                bad += 1
                continue
            open(f, 'w', encoding='utf-8').write(new)
            rc, out = run_check(d, prop, only)
            killed = rc == 1 and 'VIOLATION property=%s' % prop in out
            print('%-8s %-55s %s exit=%d' % ('killed' if killed else 'SURVIVED', name, prop, rc))
            if not killed:
                bad += 1
                print('\n'.join('    ' + l for l in out.splitlines()[-6:]))
                if not a.keep_going:
                    break
        finally:
            shutil.rmtree(d, ignore_errors=True)
    print('selftest: %d mutants, %d not killed, %.0fs' % (len(MUTANTS), bad, time.time() - t0))
    sys.exit(0 if bad == 0 else 3)


if __name__ == '__main__':
    main()
