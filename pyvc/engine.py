"""pyvc: verification-condition generator for a subset of Python, run on the real AST of functions in /repo.

Forward symbolic execution, one obligation per path and per conjunct; loops are cut by invariants from the
sidecar contract; calls are replaced by the callee's contract (never its body); heap is Boogie-style.
"""
import ast
import z3
from .ty import *
from .state import State, dtype, key_alloc, key_len, key_arr, key_fld, key_dom, key_val, key_mem, key_sort, entry_array, _key_sorts
from . import extract
from .exprs import ExprMixin
from .stmts import StmtMixin
from .calls import CallMixin


CONTAINER_TAG = {'list': -1, 'dict': -2, 'set': -3}


class Unsupported(Exception):
    """construct outside the verified subset -> the function is *undecided* (exit 2), never silently skipped"""


class WidenType(Exception):
    """a local changes type across a loop back edge (typically None -> T): re-run with the variable declared at the joined type"""

    def __init__(self, name, ty):
        Exception.__init__(self, name)
        self.name, self.ty = name, ty


class Obligation:
    __slots__ = ('name', 'hyps', 'goal', 'kind', 'line', 'func', 'expect_sat', 'text')

    def __init__(self, name, hyps, goal, kind, line, func, expect_sat=False, text=''):
        self.name, self.hyps, self.goal, self.kind, self.line, self.func = name, list(hyps), goal, kind, line, func
        self.expect_sat = expect_sat     # vacuity guards (covers / canaries): must be satisfiable
        self.text = text


class Outcome:
    __slots__ = ('kind', 'st', 'val', 'exc', 'line')

    def __init__(self, kind, st, val=None, exc=None, line=0):
        self.kind, self.st, self.val, self.exc, self.line = kind, st, val, exc, line


class FnVerifier(ExprMixin, StmtMixin, CallMixin):
    def __init__(self, reg, contract, prop='', axioms=()):
        self.reg = reg
        self.c = contract
        self.prop = prop
        self.path, self.src, node = extract.locate(contract.target)
        self.fn = node
        self.obls = []
        self.counters = {}
        self.loop_no = 0
        self.specmode = 0
        self.spec_old = None
        self.handlers = []          # stack of lists of exception class names caught by enclosing try blocks
        self.sinks = [[]]           # stack of lists collecting raise outcomes
        self.closures = {}
        self.global_axioms = list(axioms)
        qual = contract.qualname.split('.')
        self.owner = qual[-2] if len(qual) >= 2 and qual[-2] != '<locals>' else None
        self.fname = '%s.%s' % (contract.module, contract.qualname)
        self.is_generator = contract.generator is not None
        self.modset = []            # refs the function may write (evaluated at entry)
        self.entry = None
        self.exits = []

    # ------------------------------------------------------------------ obligations
    def label(self, kind, node=None):
        """stable label: kind + position relative to the function header (paths through the same site share it; the runner
        disambiguates repeated names with ~k)"""
        if node is not None and hasattr(node, 'lineno'):
            return '%s@%d.%d' % (kind, node.lineno - self.fn.lineno, getattr(node, 'col_offset', 0))
        n = self.counters.get(kind, 0)
        self.counters[kind] = n + 1
        return '%s#%d' % (kind, n)

    def call_ordinal(self, node):
        """ordinal of a Call node among the calls to the same callee expression, in source order (ghost anchors)"""
        key = ast.unparse(node.func)
        if not hasattr(self, '_call_ords'):
            self._call_ords = {}
            calls = sorted((n for n in ast.walk(self.fn) if isinstance(n, ast.Call)), key=lambda n: (n.lineno, n.col_offset))
            cnt = {}
            for n in calls:
                k = ast.unparse(n.func)
                self._call_ords[id(n)] = cnt.get(k, 0)
                cnt[k] = cnt.get(k, 0) + 1
        return '%s#%d' % (key, self._call_ords.get(id(node), 0))

    def oblige(self, name, st, goal, node=None, kind=None, hyps_extra=(), expect_sat=False, text=''):
        if self.specmode:
            return
        full = '%s/%s/%s' % (self.prop, self.fname, name)
        self.obls.append(Obligation(full, self.global_axioms + st.pc + list(hyps_extra), goal, kind or name.split('.')[0].split('#')[0],
                                    getattr(node, 'lineno', 0), self.fname, expect_sat, text))

    # ------------------------------------------------------------------ spec evaluation
    def spec(self, src, st, env=None, old=None, result=None, exc=None, out=None):
        """Evaluate a spec expression (python syntax) -> (z3 Bool or SV, side axioms). Never creates obligations."""
        node = ast.parse(src.strip(), mode='eval').body if isinstance(src, str) else src
        scratch = st.copy()
        if env is not None:
            scratch.env = dict(env)
        if result is not None:
            scratch.env['result'] = result
        if exc is not None:
            scratch.env['exc'] = exc
        if out is not None:
            scratch.env['out'] = out
        saved_old = self.spec_old
        saved_env = getattr(self, 'spec_env', None)
        self.spec_env = dict(env) if env is not None else (saved_env if self.specmode else None)
        self.spec_old = old if old is not None else (saved_old if self.specmode else self.entry)
        self.specmode += 1
        n0 = len(scratch.pc)
        try:
            v = self.ev1(node, scratch)
        finally:
            self.specmode -= 1
            self.spec_old = saved_old
            self.spec_env = saved_env
        for k, arr in scratch.heap.items():       # components first read by the specification stay the same components afterwards
            if k not in st.heap:
                st.heap[k] = arr
        return v, scratch.pc[n0:]

    def spec_bool(self, src, st, **kw):
        v, sides = self.spec(src, st, **kw)
        return self.truthy(v, st), sides

    def conjuncts(self, src):
        node = ast.parse(src.strip(), mode='eval').body
        if isinstance(node, ast.BoolOp) and isinstance(node.op, ast.And):
            return [ast.unparse(v) for v in node.values]
        return [src.strip()]

    def assume_spec(self, src, st, **kw):
        g, sides = self.spec_bool(src, st, **kw)
        st.assume(*sides)
        st.assume(g)

    def oblige_spec(self, name, src, st, node=None, kind=None, **kw):
        for j, cj in enumerate(self.conjuncts(src)):
            g, sides = self.spec_bool(cj, st, **kw)
            self.oblige('%s.c%d' % (name, j) if len(self.conjuncts(src)) > 1 else name, st, g, node, kind=kind, hyps_extra=sides, text=cj)

    # ------------------------------------------------------------------ entry
    def assume_typed(self, sv, st, depth=1):
        n0 = len(st.pc)
        self._assume_typed(sv, st, depth)
        if not hasattr(self, '_typing_ids'):
            self._typing_ids = set()
        for f in st.pc[n0:]:
            self._typing_ids.add(f.get_id())

    def _assume_typed(self, sv, st, depth=1):
        """facts every well-typed value satisfies: allocated refs with the right dynamic class, class invariants"""
        if isinstance(sv, SeqV):
            st.assume(sv.n >= 0)
            return
        t = sv.ty
        if t.kind == 'opt':
            if sort_of(t) == Ref:
                inner = SV(t.args[0], sv.z)
                tmp = State(st.env, st.heap, [])
                self._assume_typed(inner, tmp, depth)
                if tmp.pc:
                    st.assume(z3.Or(sv.z == NULL, z3.And(*tmp.pc)))
            return
        if t.is_ref:
            st.assume(sv.z != NULL, st.alloc(sv.z))
        if t.kind in CONTAINER_TAG:
            st.assume(dtype(sv.z) == CONTAINER_TAG[t.kind])      # a list is never a dict / set / instance
        if t.kind == 'list':
            st.assume(st.llen(sv.z) >= 0)
        if t.kind == 'obj' and t.args[0] in self.reg.classes:
            subs = self.reg.subclasses(t.args[0])
            st.assume(z3.Or(*[dtype(sv.z) == self.reg.classes[c].cid for c in subs]))
            if depth > 0:
                for cn in self.reg.mro(t.args[0]):
                    for inv in self.reg.classes[cn].invariant:
                        self.assume_spec(inv, st, env={'self': sv})

    def setup_entry(self):
        st = State()
        for name, ty in self.c.params:
            sv = fresh_sv(name, ty)
            st.env[name] = sv
        for name, sv in list(st.env.items()):
            self.assume_typed(sv, st)
        if self.is_generator:
            e = self.c.generator
            st.out = SeqV(e, fresh('out0', z3.ArraySort(z3.IntSort(), sort_of(e))), z3.IntVal(0))
        from .state import _key_sorts
        for key in list(_key_sorts):
            st.H(key)
        self.entry = st.copy()
        for r in self.c.requires:
            self.assume_spec(r, st, old=self.entry)
        for lname in self.c.lemmas:
            st.assume(self.lemma_closure(lname, st))
        self.entry = st.copy()
        # frame: objects this function may write
        self.modset = []
        for m in self.c.modifies:
            v, sides = self.spec(m, st)
            st.assume(*sides)
            self.modset.append(v)
        return st

    def lemma_closure(self, lname, st):
        """forall params. requires => ensures of a ghost lemma (proved on its own: lemma.<name> obligations of the same run)"""
        from .specs import formal
        l = self.reg.lemmas[lname]
        env, zs = {}, []
        for pn, pt in l.params:
            v, z = formal('U_%s_%s' % (lname, pn), pt)
            env[pn] = v
            zs += z
        pre, post = [], []
        for r in l.requires:
            g, sides = self.spec_bool(r, st, env=env)
            pre += sides + [g]
        for e in l.ensures:
            g, sides = self.spec_bool(e, st, env=env)
            pre += sides
            post.append(g)
        body = z3.Implies(z3.And(*pre), z3.And(*post)) if pre else z3.And(*post)
        return z3.ForAll(zs, z3.simplify(body))

    # ------------------------------------------------------------------ run
    def body_stmts(self):
        if self.c.region is not None:
            stmts = self.c.region(self.fn)
            if not stmts:
                raise Unsupported('region selector lost in %s' % self.c.target)
            return stmts
        return self.fn.body

    def run(self):
        for attempt in range(6):
            try:
                return self.run_once()
            except WidenType as w:
                self.c.types[w.name] = w.ty
                self.obls, self.counters, self.loop_no, self.exits, self.closures = [], {}, 0, [], {}
                self.handlers, self.sinks = [], [[]]
        raise Unsupported('type widening did not converge')

    def run_once(self):
        st = self.setup_entry()
        # vacuity: the precondition must be satisfiable
        self.oblige('cover.requires', st, z3.BoolVal(False), self.fn, kind='cover', expect_sat=True)
        self.sinks = [[]]
        outs = self.block(self.body_stmts(), [st])
        for o in outs:
            if o.kind == 'next':
                # falling off the end: `return None` for a function; for a statement region, control continues after the region
                self.exits.append(Outcome('fall' if self.c.region is not None else 'return', o.st, SV(NONE, NONEV), line=getattr(self.fn, 'end_lineno', 0)))
            elif o.kind == 'return':
                self.exits.append(o)
            else:
                raise Unsupported('%s outside loop' % o.kind)
        for o in self.sinks[0]:
            self.exits.append(o)
        self.check_exits()
        return self.obls

    def check_exits(self):
        c = self.c
        nret = 0
        for o in self.exits:
            st = o.st
            if c.region is None:
                # in the function's own postconditions a parameter name means the ARGUMENT (its value at entry), even if the body rebinds it
                st = st.copy()
                for pn, _ in c.params:
                    if pn in self.entry.env:
                        st.env[pn] = self.entry.env[pn]
            if o.kind == 'fall':
                for i, e in enumerate(self.c.ghost.get('ensures_fall', c.ensures)):
                    self.oblige_spec('post.fall#%d.e%d' % (nret, i), e, st, node=None, kind='post', old=self.entry, out=st.out)
                if c.canary:
                    self.oblige('canary.fall#%d' % nret, st, z3.BoolVal(False), kind='canary', expect_sat=True)
                nret += 1
            elif o.kind == 'return':
                k = nret
                nret += 1
                res = self.coerce(o.val, c.returns, st) if o.val is not None else SV(NONE, NONEV)
                for i, e in enumerate(c.ensures):
                    if isinstance(e, tuple):
                        # (spec, finding id, exclusion): a clause the code is known not to satisfy on the inputs described by `exclusion`.
                        # The clause itself is still generated (reported as KNOWN-FINDING while it fails); with the exclusion assumed it must hold.
                        spec_, fid, excl = e
                        self.oblige_spec('post.return#%d.e%d.known-%s' % (k, i, fid), spec_, st, node=None, kind='post', old=self.entry, result=res, out=st.out)
                        s2 = st.copy()
                        self.assume_spec(excl, s2, old=self.entry, result=res, out=st.out)
                        self.oblige_spec('post.return#%d.e%d.outside-%s' % (k, i, fid), spec_, s2, node=None, kind='post', old=self.entry, result=res, out=st.out)
                        continue
                    self.oblige_spec('post.return#%d.e%d' % (k, i), e, st, node=None, kind='post', old=self.entry, result=res, out=st.out)
                if c.canary:
                    self.oblige('canary.return#%d' % k, st, z3.BoolVal(False), kind='canary', expect_sat=True)
            elif o.kind == 'raise':
                allowed = [E for E in c.raises if self.reg.is_exc_subclass(o.exc, E)]
                if not allowed:
                    self.oblige('raises.%s@%s' % (o.exc, self.label('raise')), st, z3.BoolVal(False), kind='raises',
                                text='exception %s must not escape (line %d)' % (o.exc, o.line))
                else:
                    for E in allowed[:1]:
                        for i, e in enumerate(c.raises[E]):
                            self.oblige_spec('post.raise.%s#%s.e%d' % (E, self.label('raise.' + E), i), e, st, kind='post',
                                             old=self.entry, exc=o.val, out=st.out)
        if nret == 0 and not any(o.kind == 'raise' for o in self.exits):
            # no exit at all is reachable only if every path diverges; flagged by the runner (zero post obligations)
            pass

    # ------------------------------------------------------------------ raising
    def catches(self, exc):
        for hs in self.handlers:
            for h in hs:
                if self.reg.is_exc_subclass(exc, h):
                    return True
        return any(self.reg.is_exc_subclass(exc, E) for E in self.c.raises)

    def do_raise(self, exc, val, st, node=None):
        if self.specmode:
            return
        self.sinks[-1].append(Outcome('raise', st, val, exc, getattr(node, 'lineno', 0)))

    def check(self, st, cond, exc, label, node):
        """implicit raiser: `cond` must hold or `exc` is raised. Forks if exc is handled/declared, else a safety obligation."""
        if self.specmode:
            return
        cond = z3.simplify(cond)
        if z3.is_true(cond):
            return
        if self.catches(exc):
            bad = st.copy()
            bad.assume(z3.Not(cond))
            self.do_raise(exc, None, bad, node)
        else:
            self.oblige('safety.' + self.label(label, node), st, cond, node, kind='safety',
                        text='%s cannot be raised here (line %d)' % (exc, getattr(node, 'lineno', 0)))
        st.assume(cond)

    # ------------------------------------------------------------------ frame
    def in_mod(self, r, m):
        """r is (one of) the object(s) denoted by the modifies entry m: a reference, or elements(list) = every element of a sequence"""
        if isinstance(m, SeqV):
            i = z3.Int('i!me')
            return z3.Exists([i], z3.And(0 <= i, i < m.n, z3.Select(m.arr, i) == r))
        return r == m.z

    def check_write(self, st, r, node, what='write'):
        """writes are allowed to objects allocated during this call or listed in `modifies`"""
        if self.specmode:
            return
        if st.tags.get('published'):
            self.oblige('publication.' + self.label(what, node), st, z3.Not(z3.Select(self.entry.H(key_alloc()), r)), node, kind='frame',
                        text='write to a pre-existing object after the shared field %s was published (line %d): another thread may observe the half-built state'
                        % st.tags['published'])
        fresh_here = z3.Not(z3.Select(self.entry.H(key_alloc()), r))
        ok = z3.Or(fresh_here, *[self.in_mod(r, m) for m in self.modset])
        self.oblige('frame.' + self.label(what, node), st, ok, node, kind='frame',
                    text='write to an object outside modifies (line %d)' % getattr(node, 'lineno', 0))
