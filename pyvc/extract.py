"""Locate the functions under contract in the *current* /repo working tree (no copies kept)."""
import ast
import hashlib
import os

REPO = os.environ.get('VERIF_REPO', '/repo')

_cache = {}


class ExtractError(Exception):
    pass


def module_path(module):
    p = os.path.join(REPO, *module.split('.'))
    if os.path.isdir(p):
        return os.path.join(p, '__init__.py')
    return p + '.py'


def module_ast(module):
    path = module_path(module)
    key = (path, os.path.getmtime(path))
    if key not in _cache:
        src = open(path, encoding='utf-8').read()
        _cache[key] = (src, ast.parse(src, filename=path))
    return (path,) + _cache[key]


def locate(target):
    """'lark.utils:small_factors' | 'lark.lexer:LineCounter.feed' | 'm:f.<locals>.g' -> (path, src, FunctionDef/ClassDef)."""
    module, qual = target.split(':', 1)
    qual = qual.split('#', 1)[0]          # 'Class.method#region' names a statement region of that function
    path, src, tree = module_ast(module)
    node = tree
    for part in qual.split('.'):
        if part == '<locals>':
            continue
        found = None
        # search direct children first, then (for nested defs inside control flow) the whole sub-tree minus nested scopes
        for child in _scope_children(node):
            if isinstance(child, (ast.FunctionDef, ast.ClassDef, ast.AsyncFunctionDef)) and child.name == part:
                found = child          # last definition wins, like at run time
        if found is None:
            raise ExtractError('cannot locate %s (missing %r) in %s' % (target, part, path))
        node = found
    return path, src, node


def _scope_children(node):
    """definitions directly in the scope of node (descending through if/try/with/for, not into other defs)"""
    out = []
    todo = list(ast.iter_child_nodes(node))
    while todo:
        n = todo.pop(0)
        if isinstance(n, (ast.FunctionDef, ast.ClassDef, ast.AsyncFunctionDef)):
            out.append(n)
        elif isinstance(n, (ast.If, ast.Try, ast.With, ast.For, ast.While)):
            todo = list(ast.iter_child_nodes(n)) + todo
    return out


def _code_digest(node):
    """digest of the function's CODE: its AST without docstrings (comments are not part of the AST, positions are not dumped) - an edit of
    a comment or a docstring is not a change of the function"""
    import copy
    n = copy.deepcopy(node)
    for sub in ast.walk(n):
        if isinstance(sub, (ast.FunctionDef, ast.AsyncFunctionDef, ast.ClassDef)) and sub.body and isinstance(sub.body[0], ast.Expr) \
                and isinstance(sub.body[0].value, ast.Constant) and isinstance(sub.body[0].value.value, str):
            sub.body = sub.body[1:] or [ast.Pass()]
    return hashlib.sha256(ast.dump(n, include_attributes=False).encode()).hexdigest()


def describe(target):
    path, src, node = locate(target)
    return {'target': target, 'file': os.path.relpath(path, REPO), 'lines': [node.lineno, node.end_lineno],
            'sha256': _code_digest(node)}


def decorators(node):
    out = []
    for d in node.decorator_list:
        if isinstance(d, ast.Name):
            out.append(d.id)
        elif isinstance(d, ast.Attribute):
            out.append(d.attr)
        elif isinstance(d, ast.Call):
            out.append(getattr(d.func, 'id', getattr(d.func, 'attr', '?')))
    return out
