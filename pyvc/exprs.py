"""Expression evaluation (code mode: may fork / emit obligations; spec mode: pure)."""
import ast
import z3
from .ty import *
from .state import key_alloc
from .state import State, dtype

I = z3.IntSort()


def _unsup(msg, node=None):
    from .engine import Unsupported
    raise Unsupported('%s (line %s)' % (msg, getattr(node, 'lineno', '?')))


def _mentions(f, ids):
    """does the term DAG f contain one of the constants with the given ids? (iterative, each node once)"""
    seen = set()
    todo = [f]
    while todo:
        t = todo.pop()
        i = t.get_id()
        if i in seen:
            continue
        seen.add(i)
        if i in ids:
            return True
        if z3.is_quantifier(t):
            todo.append(t.body())
        else:
            todo.extend(t.children())
    return False


class ExprMixin:
    # ------------------------------------------------------------------ helpers
    def ev1(self, e, st):
        res = list(self.ev(e, st))
        if len(res) != 1:
            _unsup('forking expression in pure context: %s' % ast.unparse(e), e)
        return res[0][0]

    def ev_many(self, exprs, st):
        if not exprs:
            yield [], st
            return
        for v, s in self.ev(exprs[0], st):
            for vs, s2 in self.ev_many(exprs[1:], s):
                yield [v] + vs, s2

    def truthy(self, v, st):
        if isinstance(v, z3.ExprRef):
            return v
        if isinstance(v, SeqV):
            return v.n > 0
        k = v.ty.kind
        if k == 'bool': return v.z
        if k == 'int': return v.z != 0
        if k == 'str': return z3.Length(v.z) > 0
        if k == 'none': return z3.BoolVal(False)
        if k == 'sized': return v.z > 0
        if k == 'any': return z3.Function('any_truthy', AnyS, z3.BoolSort())(v.z)
        if k == 'list':
            self.assume_heap_typing(st, st.llen(v.z) >= 0)        # a length is never negative, in any heap
            return st.llen(v.z) > 0
        if k == 'text': return self.text_len(v.z) > 0
        if k == 'opt':
            inner = self.truthy(opt_val(v), st)
            return z3.And(z3.Not(opt_is_none(v)), inner)
        if k == 'obj':
            d = self.reg.classes.get(v.ty.args[0])
            if d is not None and d.truthy:
                g, sides = self.spec_bool(d.truthy, st, env={'self': v})
                st.assume(*sides)
                return g
            return z3.BoolVal(True)
        if k == 'dict':
            kk = fresh('k', sort_of(v.ty.args[0]))
            return self.card(v, st) > 0
        if k == 'set':
            return self.card(v, st) > 0
        if k == 'tuple': return z3.BoolVal(len(v.ty.args) > 0)
        _unsup('truthiness of %r' % (v.ty,))

    def card(self, v, st):
        from .state import key_card
        c = z3.Select(st.H(key_card()), v.z)
        self.assume_heap_typing(st, c >= 0)          # a size is never negative, in any heap
        return c

    def assume_heap_typing(self, st, fact):
        """a fact every heap satisfies (lengths and sizes are non-negative): assumed, and marked so that under a quantifier it becomes an
        assumption of its own instead of a guard that would have to be re-proved before the quantified fact can be used"""
        st.assume(fact)
        if not hasattr(self, '_typing_ids'):
            self._typing_ids = set()
        self._typing_ids.add(fact.get_id())

    def text_len(self, z):
        return z3.Function('tlen', TextS, I)(z)

    def text_slice(self, v, lo, hi, st, node):
        """t[lo:hi] of an abstract buffer: a fresh text that is the slice of t at the clamped start (ISSLICE of the registry's text model)"""
        f = self.reg.specfuns.get('ISSLICE')
        if f is None:
            _unsup('slice of a text buffer without the text model (ISSLICE)', node)
        n = self.text_len(v.z)
        a = self.clamp(lo.z, n) if lo is not None else z3.IntVal(0)
        b = self.clamp(hi.z, n) if hi is not None else n
        res = SV(v.ty, fresh('tslice', TextS))
        st.assume(self.text_len(res.z) == z3.If(b > a, b - a, 0), self.text_len(res.z) >= 0, f.z3fun(res.z, v.z, a))
        return res

    def coerce(self, v, ty, st):
        """view value v at declared type ty (None/opt injections, bool->int); no runtime effect"""
        if isinstance(v, SeqV) or v.ty == ty:
            return v
        if ty.kind == 'opt':
            if v.ty.kind == 'none':
                return opt_none(ty)
            if v.ty.kind == 'opt':
                return SV(ty, v.z) if sort_of(v.ty) == sort_of(ty) else v
            inner = self.coerce(v, ty.args[0], st)
            return opt_some(ty, inner.z)
        if ty.kind == 'int' and v.ty.kind == 'bool':
            return SV(INT, z3.If(v.z, 1, 0))
        if ty.kind == 'obj' and v.ty.kind == 'obj':
            return SV(ty, v.z)
        if ty.kind == 'any':
            return self.to_any(v)
        if v.ty.kind == 'opt' and v.ty.args[0] == ty:
            return opt_val(v)
        if v.ty.kind == 'any':
            return self.from_any(v, ty)
        if sort_of(v.ty) == sort_of(ty):
            return SV(ty, v.z)
        _unsup('cannot view %r as %r' % (v.ty, ty))

    def to_any(self, v):
        if v.ty.kind == 'any':
            return v
        f = z3.Function('any_of_' + sort_name(sort_of(v.ty)), sort_of(v.ty), AnyS)
        return SV(ANY, f(v.z))

    def from_any(self, v, ty):
        f = z3.Function('of_any_' + sort_name(sort_of(ty)), AnyS, sort_of(ty))
        return SV(ty, f(v.z))

    def const(self, value, node=None):
        if value is None: return SV(NONE, NONEV)
        if isinstance(value, bool): return SV(BOOL, z3.BoolVal(value))
        if isinstance(value, int): return SV(INT, z3.IntVal(value))
        if isinstance(value, str): return SV(STR, z3.StringVal(value))
        if isinstance(value, bytes): return SV(STR, z3.StringVal('b:' + value.decode('latin-1')))
        if isinstance(value, tuple):
            items = [self.const(x, node) for x in value]
            return mk_tuple(TTuple(*[i.ty for i in items]), [i.z for i in items])
        _unsup('constant %r' % (value,), node)

    def norm_index(self, i, n):
        if self.specmode:
            return i          # specifications index from the front only (no negative indices): keeps triggers free of ite
        return z3.simplify(z3.If(i < 0, n + i, i))

    def seq_of(self, v, st):
        if isinstance(v, SeqV):
            return v
        if v.ty.kind == 'list':
            return st.list_seq(v)
        if v.ty.kind == 'tuple' and len(set(v.ty.args)) <= 1:
            e = v.ty.args[0] if v.ty.args else INT
            arr = fresh('tupseq', z3.ArraySort(I, sort_of(e)))
            for i in range(len(v.ty.args)):
                st.assume(arr[i] == tuple_get(v, i).z)
            return SeqV(e, arr, z3.IntVal(len(v.ty.args)))
        _unsup('not a sequence: %r' % (v.ty,))

    def new_list(self, st, elem, arr, n, name='list'):
        r = st.new_ref(name, -1)
        st.lset(r, sort_of(elem), arr, n)
        return SV(TList(elem), r)

    def seq_concat(self, a, b, st):
        elem = a.elem
        arr = fresh('cat', z3.ArraySort(I, sort_of(elem)))
        i = z3.Int('i!cat')
        st.assume(z3.ForAll([i], z3.Implies(z3.And(0 <= i, i < a.n), arr[i] == a.arr[i]), patterns=[arr[i]]),
                  z3.ForAll([i], z3.Implies(z3.And(a.n <= i, i < a.n + b.n), arr[i] == b.arr[i - a.n]), patterns=[arr[i]]))
        try:
            st.assume(z3.ForAll([i], z3.Implies(z3.And(0 <= i, i < b.n), arr[a.n + i] == b.arr[i]), patterns=[b.arr[i]]))
        except z3.Z3Exception:
            pass        # b is a constant array ([x] * n): the previous axiom already covers it
        res = SeqV(elem, arr, a.n + b.n)
        self.seq_lemmas(res, a, a.n, st)
        for f in self.reg.specfuns.values():
            if getattr(f, 'concat_lemma', None) and f.params[0][1] == TSeq(elem):
                st.assume(f.concat_lemma(arr, a.arr, a.n, b.arr, b.n))
        return res

    def seq_slice(self, s, lo, hi, st):
        """s[lo:hi] with already-normalised, clamped bounds lo <= hi"""
        if z3.is_int_value(z3.simplify(lo)) and z3.simplify(lo).as_long() == 0:
            return SeqV(s.elem, s.arr, hi)
        arr = fresh('slice', z3.ArraySort(I, sort_of(s.elem)))
        i = z3.Int('i!sl')
        st.assume(z3.ForAll([i], z3.Implies(z3.And(0 <= i, i < hi - lo), arr[i] == s.arr[lo + i])))
        return SeqV(s.elem, arr, hi - lo)

    def seq_rep(self, x, n, st):
        arr = z3.K(I, x.z)
        return SeqV(x.ty, arr, n)

    def seq_lemmas(self, new, src, n, st):
        """instantiate the prefix-agreement lemma of every recursive spec function over sequences (proved once per function)"""
        for f in self.reg.specfuns.values():
            if getattr(f, 'prefix_lemma', None) and f.params[0][1] == TSeq(new.elem):
                st.assume(f.prefix_lemma(new.arr, src.arr, n))

    def seq_eq(self, a, b):
        i = z3.Int('i!eq')
        return z3.And(a.n == b.n, z3.ForAll([i], z3.Implies(z3.And(0 <= i, i < a.n), a.arr[i] == b.arr[i])))

    # ------------------------------------------------------------------ main dispatcher
    def ev(self, e, st):
        if self.c.names and isinstance(e, (ast.Call, ast.Attribute, ast.Subscript, ast.BinOp, ast.ListComp, ast.DictComp, ast.SetComp)):
            # whole-expression resolution declared by the contract (module constants, external calls with awkward syntax)
            r = self.c.names.get('expr:' + ast.unparse(e))
            if r is not None:
                if r[0] == 'sv':
                    yield r[1], st
                    return
                if r[0] == 'sv_env':           # the expression denotes a (ghost) parameter of the contract
                    yield st.env[r[1]], st
                    return
                if r[0] == 'contract':
                    yield from self.apply_contract(self.reg.contracts[r[1]], [], {}, st, e)
                    return
        m = getattr(self, 'ev_' + type(e).__name__, None)
        if m is None:
            _unsup('expression %s' % type(e).__name__, e)
        yield from m(e, st)

    def ev_Constant(self, e, st):
        yield self.const(e.value, e), st

    def ev_Name(self, e, st):
        if e.id in st.env:
            yield st.env[e.id], st
            return
        if e.id in ('True', 'False'):
            yield SV(BOOL, z3.BoolVal(e.id == 'True')), st
            return
        r = self.resolve_name(e.id)
        if r is not None and r[0] == 'const':
            yield self.const(r[1], e), st
            return
        if r is not None and r[0] == 'sv':
            yield r[1], st
            return
        if r is not None and r[0] == 'modconst':
            # a module-level constant: its literal value is read from the current source of that module on every run
            yield self.const(self.module_constant(r[1], e.id if len(r) < 3 else r[2], e), e), st
            return
        if getattr(self.c, 'region', None) is not None and not self.specmode and self._is_enclosing_local(e.id):
            # a region contract reads a local of the enclosing function that the contract does not declare: an arbitrary value
            v = SV(ANY, fresh(e.id, AnyS))
            st.env[e.id] = v
            yield v, st
            return
        _unsup('unbound name %s' % e.id, e)

    def _is_enclosing_local(self, name):
        fn = getattr(self, 'fn', None)
        if fn is None:
            return False
        a = fn.args
        if any(x.arg == name for x in a.posonlyargs + a.args + a.kwonlyargs) or (a.vararg and a.vararg.arg == name) or (a.kwarg and a.kwarg.arg == name):
            return True
        return any(isinstance(n, ast.Name) and n.id == name and isinstance(n.ctx, ast.Store) for n in ast.walk(fn))

    def module_constant(self, module, name, node):
        from .extract import module_ast
        _, _, tree = module_ast(module)
        val = None
        for n in tree.body:
            if isinstance(n, ast.Assign) and any(isinstance(t, ast.Name) and t.id == name for t in n.targets):
                try:
                    val = ast.literal_eval(n.value)
                except Exception:
                    _unsup('module constant %s.%s is not a literal' % (module, name), node)
        if val is None:
            _unsup('module constant %s.%s not found' % (module, name), node)
        return val

    def resolve_name(self, name):
        if name in self.c.names:
            return self.c.names[name]
        return getattr(self.reg, 'global_names', {}).get(name)

    def ev_JoinedStr(self, e, st):
        # f-string: the parts are evaluated (their safety obligations count), the text itself is an arbitrary string
        parts = [v.value for v in e.values if isinstance(v, ast.FormattedValue)]
        for vs, s in self.ev_many(parts, st):
            yield SV(STR, fresh('fstr', z3.StringSort())), s

    def ev_Lambda(self, e, st):
        # a function value that is only stored / passed on: opaque
        yield SV(ANY, fresh('lambda', AnyS)), st

    def ev_Tuple(self, e, st):
        for vs, s in self.ev_many(e.elts, st):
            if any(isinstance(v, SeqV) for v in vs):
                _unsup('sequence inside tuple', e)
            yield mk_tuple(TTuple(*[v.ty for v in vs]), [v.z for v in vs]), s

    def ev_List(self, e, st):
        for vs, s in self.ev_many(e.elts, st):
            elem = self.join_types([v.ty for v in vs], e)
            arr = fresh('lit', z3.ArraySort(I, sort_of(elem)))
            for i, v in enumerate(vs):
                arr = z3.Store(arr, i, self.coerce(v, elem, s).z)
            if self.specmode:
                yield SeqV(elem, arr, z3.IntVal(len(vs))), s
            else:
                yield self.new_list(s, elem, arr, z3.IntVal(len(vs))), s

    def join_types(self, tys, node=None):
        hint = getattr(node, '_elem_hint', None)
        if hint is not None:
            return hint
        if not tys:
            t = self.c.types.get('@list%d' % getattr(node, 'lineno', 0))
            if t is None:
                t = self.expected_elem or ANY
            return t
        t = tys[0]
        for u in tys[1:]:
            if u != t:
                if 'any' in (u.kind, t.kind): t = ANY          # a dynamically typed value may be None already
                elif u.kind == 'none': t = TOpt(t)
                elif t.kind == 'none': t = TOpt(u)
                elif t.kind == 'opt' and t.args[0] == u: pass
                elif u.kind == 'opt' and u.args[0] == t: t = u
                elif t.kind == 'obj' and u.kind == 'obj':
                    common = [c for c in self.reg.mro(t.args[0]) if c in self.reg.mro(u.args[0])]
                    t = TObj(common[0]) if common else ANY
                else: t = ANY
        return t

    expected_elem = None

    def ev_UnaryOp(self, e, st):
        for v, s in self.ev(e.operand, st):
            if isinstance(e.op, ast.Not):
                yield SV(BOOL, z3.Not(self.truthy(v, s))), s
            elif isinstance(e.op, ast.USub):
                yield SV(INT, z3.simplify(-self.coerce(v, INT, s).z)), s
            else:
                _unsup('unary op', e)

    def ev_BoolOp(self, e, st):
        # pure operands of one type: a plain formula; otherwise short-circuit forks (exact value semantics of and/or)
        if self.specmode:
            vs = [self.ev1(x, st) for x in e.values]
            work = st
        elif all(self.is_pure(x) for x in e.values):
            # short-circuit: operand k is only evaluated when the operands before it did not decide the result, so its
            # obligations (None checks, index checks) and the facts it produces are conditional on that
            work = st.copy()
            saved_obls = len(self.obls)
            vs, guards = [], []
            for x in e.values:
                sk = work.copy()
                sk.assume(*guards)
                n0 = len(sk.pc)
                v = self.ev1(x, sk)
                for f in sk.pc[n0:]:
                    work.assume(z3.Implies(z3.And(*guards), f) if guards else f)
                for k_, arr in sk.heap.items():
                    work.heap.setdefault(k_, arr)
                vs.append(v)
                t = self.truthy(v, work)
                guards.append(t if isinstance(e.op, ast.And) else z3.Not(t))
            kinds = {('seq' if isinstance(v, SeqV) else repr(v.ty)) for v in vs}
            if len(kinds) > 1:
                del self.obls[saved_obls:]        # mixed types: the value is one of the operands -> fork instead
                vs = None
        else:
            vs = None
        if vs is not None:
            if work is not st:
                st.pc, st.heap = work.pc, work.heap
            if all((not isinstance(v, SeqV)) and v.ty.kind == 'bool' for v in vs):
                zs = [v.z for v in vs]
                yield SV(BOOL, z3.And(*zs) if isinstance(e.op, ast.And) else z3.Or(*zs)), st
                return
            if not any(isinstance(v, SeqV) for v in vs):
                # value-returning and/or: x or y == x if x else y
                res = vs[-1]
                for v in reversed(vs[:-1]):
                    t = self.truthy(v, st)
                    ty = self.join_types([v.ty, res.ty])
                    a, b_ = self.coerce(v, ty, st), self.coerce(res, ty, st)
                    res = SV(ty, z3.If(t, b_.z, a.z) if isinstance(e.op, ast.And) else z3.If(t, a.z, b_.z))
                yield res, st
                return
        yield from self._boolop_fork(e, list(e.values), st)

    def _boolop_fork(self, e, values, st):
        for v, s in self.ev(values[0], st):
            if len(values) == 1:
                yield v, s
                continue
            t = self.truthy(v, s)
            s_short, s_cont = s.copy(), s
            if isinstance(e.op, ast.And):
                s_short.assume(z3.Not(t)); s_cont.assume(t)
            else:
                s_short.assume(t); s_cont.assume(z3.Not(t))
            yield v, s_short
            yield from self._boolop_fork(e, values[1:], s_cont)

    def is_pure(self, e):
        """syntactic: no calls except to known pure builtins/spec functions, no yields"""
        for n in ast.walk(e):
            if isinstance(n, (ast.Yield, ast.YieldFrom, ast.Await, ast.NamedExpr)):
                return False
            if isinstance(n, ast.Call) and not self.call_is_pure(n):
                return False
            if isinstance(n, (ast.Subscript, ast.Attribute)) and not self.specmode and self.access_may_raise(n):
                return False
        return True

    def access_may_raise(self, n):
        return isinstance(n, ast.Subscript)

    def ev_IfExp(self, e, st):
        pure = self.specmode or (self.is_pure(e.body) and self.is_pure(e.orelse) and self.is_pure(e.test))
        if pure and not self.specmode:
            # a condition that itself forks (and/or over values of different types) is handled by the forking path below
            saved_obls = len(self.obls)
            probe = list(self.ev(e.test, st.copy()))
            del self.obls[saved_obls:]
            pure = len(probe) == 1
        if pure:
            t = self.truthy(self.ev1(e.test, st), st)
            if self.specmode:
                a, b = self.ev1(e.body, st), self.ev1(e.orelse, st)
            else:
                # each branch is evaluated (obligations, facts) under its own condition
                saved_obls = len(self.obls)
                sa, sb = st.copy(), st.copy()
                sa.assume(t); sb.assume(z3.Not(t))
                na, nb = len(sa.pc), len(sb.pc)
                a, b = self.ev1(e.body, sa), self.ev1(e.orelse, sb)
                ty0 = self.join_types([a.ty, b.ty]) if not (isinstance(a, SeqV) or isinstance(b, SeqV)) else None
                if ty0 is not None and ty0.kind in ('int', 'bool'):
                    for f in sa.pc[na:]:
                        st.assume(z3.Implies(t, f))
                    for f in sb.pc[nb:]:
                        st.assume(z3.Implies(z3.Not(t), f))
                    for hs in (sa.heap, sb.heap):
                        for k_, arr in hs.items():
                            st.heap.setdefault(k_, arr)
                else:
                    del self.obls[saved_obls:]
            ty = self.join_types([a.ty, b.ty]) if not (isinstance(a, SeqV) or isinstance(b, SeqV)) else ANY
            if self.specmode or ty.kind in ('int', 'bool'):
                a, b = self.coerce(a, ty, st), self.coerce(b, ty, st)
                yield SV(ty, z3.If(t, a.z, b.z)), st
                return
            # code mode, non-arithmetic result: split the path (keeps ite out from under uninterpreted symbols)
        for c, s in self.ev(e.test, st):
            t = self.truthy(c, s)
            s1, s2 = s.copy(), s.copy()
            s1.assume(t); s2.assume(z3.Not(t))
            yield from self.ev(e.body, s1)
            yield from self.ev(e.orelse, s2)

    def ev_BinOp(self, e, st):
        for (l, r), s in self.ev_many([e.left, e.right], st):
            yield self.binop(e.op, l, r, s, e), s

    def unopt_num(self, v, st, node):
        """Optional[int] used as a number: None would raise TypeError"""
        if not isinstance(v, SeqV) and v.ty.kind == 'opt' and v.ty.args[0].kind in ('int', 'bool'):
            self.check(st, z3.Not(opt_is_none(v)), 'TypeError', 'none', node)
            return opt_val(v)
        return v

    def binop(self, op, l, r, st, node=None):
        l, r = self.unopt_num(l, st, node), self.unopt_num(r, st, node)
        lk = 'seq' if isinstance(l, SeqV) else l.ty.kind
        rk = 'seq' if isinstance(r, SeqV) else r.ty.kind
        if lk in ('int', 'bool') and rk in ('int', 'bool'):
            a, b = self.coerce(l, INT, st).z, self.coerce(r, INT, st).z
            if isinstance(op, ast.Add): return SV(INT, a + b)
            if isinstance(op, ast.Sub): return SV(INT, a - b)
            if isinstance(op, ast.Mult): return SV(INT, a * b)
            if isinstance(op, (ast.FloorDiv, ast.Mod)):
                self.check(st, b != 0, 'ZeroDivisionError', 'div0', node)
                q, m = self.floordivmod(a, b, st)
                return SV(INT, q if isinstance(op, ast.FloorDiv) else m)
            _unsup('int operator %s' % type(op).__name__, node)
        if lk == 'str' and rk == 'str' and isinstance(op, ast.Add):
            return SV(STR, z3.Concat(l.z, r.z))
        if lk == 'str' and isinstance(op, ast.Mod):
            return self.str_format(l, r, st, node)
        if isinstance(op, ast.Add) and lk in ('list', 'seq') and rk in ('list', 'seq'):
            a, b = self.seq_of(l, st), self.seq_of(r, st)
            if a.elem != b.elem:
                ty = self.join_types([a.elem, b.elem])
                _unsup('list concat of %r and %r' % (a.elem, b.elem), node) if sort_of(ty) != sort_of(a.elem) or sort_of(ty) != sort_of(b.elem) else None
            res = self.seq_concat(a, b, st)
            if lk == 'seq' or self.specmode:
                return res
            return self.new_list(st, res.elem, res.arr, res.n, 'cat')
        if isinstance(op, ast.Mult) and lk in ('list', 'seq') and rk == 'int':
            a = self.seq_of(l, st)
            n = r.z
            ln = z3.simplify(a.n)
            if not (z3.is_int_value(ln) and ln.as_long() == 1):
                _unsup('list * int only for singleton lists', node)
            x0 = z3.simplify(z3.Select(a.arr, 0))
            res = SeqV(a.elem, z3.K(I, x0), z3.If(n < 0, 0, n))
            for l in self.reg.lemmas.values():
                # proved ghost lemmas about n copies of one value (params x, n) are instantiated where such a sequence is built
                if getattr(l, 'on_rep', False) and l.params[0][1] == a.elem and not getattr(self, '_in_rep_lemma', False):
                    from .specs import lemma_instance
                    self._in_rep_lemma = True
                    try:
                        pre, post, sides = lemma_instance(self.reg, self, l.name, {l.params[0][0]: SV(a.elem, x0), l.params[1][0]: SV(INT, res.n)}, st)
                    finally:
                        self._in_rep_lemma = False
                    st.assume(z3.Implies(z3.And(*sides, *pre), z3.And(*post)))
            if lk == 'seq' or self.specmode:
                return res
            return self.new_list(st, res.elem, res.arr, res.n, 'rep')
        if lk == 'set' and rk == 'set' and isinstance(op, (ast.BitOr, ast.Sub, ast.BitAnd)):
            return self.set_binop(op, l, r, st)
        _unsup('operator %s on %s, %s' % (type(op).__name__, lk, rk), node)

    def floordivmod(self, a, b, st):
        q, m = fresh('q', I), fresh('m', I)
        st.assume(z3.Implies(b > 0, z3.And(a == b * q + m, 0 <= m, m < b)),
                  z3.Implies(b < 0, z3.And(a == b * q + m, b < m, m <= 0)))
        return q, m

    def str_format(self, l, r, st, node):
        args = [tuple_get(r, i) for i in range(len(r.ty.args))] if (not isinstance(r, SeqV) and r.ty.kind == 'tuple') else [r]
        lz = z3.simplify(l.z)
        if z3.is_string_value(lz) and all((not isinstance(a, SeqV)) and a.ty.kind == 'str' for a in args):
            # a literal format with only %s directives and str arguments is plain concatenation (exact)
            fmt = lz.as_string()
            parts = fmt.split('%s')
            if len(parts) == len(args) + 1 and '%' not in ''.join(parts):
                pieces = []
                for i, p_ in enumerate(parts):
                    if p_:
                        pieces.append(z3.StringVal(p_))
                    if i < len(args):
                        pieces.append(args[i].z)
                return SV(STR, z3.Concat(*pieces) if len(pieces) > 1 else pieces[0])
        if z3.is_string_value(lz) and all((not isinstance(a, SeqV)) and a.ty.kind in ('str', 'int') for a in args):
            # literal format with %s / %d directives: %s of a str is the str, %d of an int its decimal numeral (exact)
            import re as _re
            fmt = lz.as_string()
            toks = _re.split(r'(%[sd])', fmt)
            dirs = [t for t in toks if t in ('%s', '%d')]
            if len(dirs) == len(args) and '%' not in ''.join(t for t in toks if t not in ('%s', '%d')) \
                    and all((d == '%d') == (a.ty.kind == 'int') for d, a in zip(dirs, args)):
                pieces, k = [], 0
                for t in toks:
                    if t in ('%s', '%d'):
                        a = args[k]; k += 1
                        pieces.append(a.z if a.ty.kind == 'str' else z3.If(a.z >= 0, z3.IntToStr(a.z), z3.Concat(z3.StringVal('-'), z3.IntToStr(-a.z))))
                    elif t:
                        pieces.append(z3.StringVal(t))
                return SV(STR, z3.Concat(*pieces) if len(pieces) > 1 else pieces[0])
        # any other '%..' % args : opaque, injectivity not assumed. A function of the operands.
        zs = [l.z] + [a.z for a in args if not isinstance(a, SeqV)]
        f = z3.Function('fmt_' + '_'.join(sort_name(z.sort()) for z in zs), *[z.sort() for z in zs], z3.StringSort())
        return SV(STR, f(*zs))

    def ev_Compare(self, e, st):
        for vs, s in self.ev_many([e.left] + list(e.comparators), st):
            res = []
            for op, l, r in zip(e.ops, vs, vs[1:]):
                res.append(self.compare(op, l, r, s, e))
            yield SV(BOOL, z3.And(*res) if len(res) > 1 else res[0]), s

    def compare(self, op, l, r, st, node=None):
        if isinstance(op, (ast.Is, ast.IsNot, ast.Eq, ast.NotEq)):
            eq = self.equal(l, r, st, identity=isinstance(op, (ast.Is, ast.IsNot)), node=node)
            return z3.Not(eq) if isinstance(op, (ast.IsNot, ast.NotEq)) else eq
        if isinstance(op, (ast.In, ast.NotIn)):
            m = self.contains(r, l, st, node)
            return z3.Not(m) if isinstance(op, ast.NotIn) else m
        l, r = self.unopt_num(l, st, node), self.unopt_num(r, st, node)
        lk = 'seq' if isinstance(l, SeqV) else l.ty.kind
        rk = 'seq' if isinstance(r, SeqV) else r.ty.kind
        if lk in ('int', 'bool') and rk in ('int', 'bool'):
            a, b = self.coerce(l, INT, st).z, self.coerce(r, INT, st).z
            return {ast.Lt: a < b, ast.LtE: a <= b, ast.Gt: a > b, ast.GtE: a >= b}[type(op)]
        if lk == 'set' and rk == 'set' and isinstance(op, ast.LtE):
            x = fresh('x', sort_of(l.ty.args[0]))
            return z3.ForAll([x], z3.Implies(z3.Select(st.smem(l.z, x.sort()), x), z3.Select(st.smem(r.z, x.sort()), x)))
        if lk == 'str' and rk == 'str':
            return {ast.Lt: l.z < r.z, ast.LtE: l.z <= r.z, ast.Gt: r.z < l.z, ast.GtE: r.z <= l.z}[type(op)]      # code-point order, as in CPython
        if lk == 'tuple' and rk == 'tuple' and len(l.ty.args) == len(r.ty.args) and len(l.ty.args) >= 1 \
                and all(a.kind in ('int', 'bool', 'str') for a in l.ty.args + r.ty.args):
            # lexicographic order on tuples of ints / strings
            def lex(i):
                a, b = tuple_get(l, i), tuple_get(r, i)
                if i == len(l.ty.args) - 1:
                    return self.compare(op, a, b, st, node)
                strict = self.compare(ast.Lt() if isinstance(op, (ast.Lt, ast.LtE)) else ast.Gt(), a, b, st, node)
                return z3.Or(strict, z3.And(self.equal(a, b, st), lex(i + 1)))
            return lex(0)
        _unsup('comparison %s on %s, %s' % (type(op).__name__, lk, rk), node)

    def equal(self, l, r, st, identity=False, node=None):
        if isinstance(l, SeqV) or isinstance(r, SeqV):
            return self.seq_eq(self.seq_of(l, st), self.seq_of(r, st))
        lk, rk = l.ty.kind, r.ty.kind
        if lk == 'none' and rk == 'none': return z3.BoolVal(True)
        if rk == 'none' or lk == 'none':
            o = l if rk == 'none' else r
            if o.ty.kind == 'opt': return opt_is_none(o)
            if o.ty.kind == 'any': return o.z == self.to_any(SV(NONE, NONEV)).z
            return z3.BoolVal(False)
        if 'any' in (lk, rk) and lk != rk:
            return self.to_any(l).z == self.to_any(r).z       # dynamic view on one side: compare as dynamic values (None included)
        if lk == 'opt' or rk == 'opt':
            if lk == 'opt' and rk == 'opt':
                if sort_of(l.ty) == sort_of(r.ty) and (identity or not l.ty.args[0].is_ref or l.ty.args[0].kind == 'obj'):
                    return l.z == r.z
            o, x = (l, r) if lk == 'opt' else (r, l)
            return z3.And(z3.Not(opt_is_none(o)), self.equal(opt_val(o), x, st, identity, node))
        if lk in ('int', 'bool') and rk in ('int', 'bool'):
            if lk == rk: return l.z == r.z
            return self.coerce(l, INT, st).z == self.coerce(r, INT, st).z
        if lk != rk:
            if 'any' in (lk, rk):
                return self.to_any(l).z == self.to_any(r).z
            return z3.BoolVal(False)     # e.g. int == str: never equal in Python
        if lk == 'list' and not identity:
            return self.seq_eq(st.list_seq(l), st.list_seq(r)) if l.ty == r.ty else z3.BoolVal(False)
        if lk == 'obj' and not identity:
            d = self.reg.classes.get(l.ty.args[0])
            if d is not None and d.eq:
                g, sides = self.spec_bool(d.eq, st, env={'self': l, 'other': r})
                st.assume(*sides)
                return g
        if lk == 'tuple':
            if len(l.ty.args) != len(r.ty.args): return z3.BoolVal(False)
            if l.ty == r.ty and not any(a.kind in ('list', 'dict', 'set') for a in l.ty.args):
                return l.z == r.z
            return z3.And(*[self.equal(tuple_get(l, i), tuple_get(r, i), st, identity, node) for i in range(len(l.ty.args))])
        if sort_of(l.ty) != sort_of(r.ty):
            return z3.BoolVal(False)
        return l.z == r.z

    def contains(self, c, x, st, node=None):
        ck = 'seq' if isinstance(c, SeqV) else c.ty.kind
        if ck == 'set':
            return z3.Select(st.smem(c.z, sort_of(c.ty.args[0])), self.coerce(x, c.ty.args[0], st).z)
        if ck == 'dict':
            return z3.Select(st.ddom(c.z, sort_of(c.ty.args[0])), self.coerce(x, c.ty.args[0], st).z)
        if ck == 'fset':
            return z3.Select(c.z, self.coerce(x, c.ty.args[0], st).z)
        if ck == 'obj':
            m = self.reg.find_method(c.ty.args[0], '__contains__')
            if m is not None:
                res = list(self.apply_contract(m, [c, x], {}, st, node))
                return self.truthy(res[0][0], st)
        if ck in ('list', 'seq'):
            s = self.seq_of(c, st)
            i = fresh('i_in', I)
            xz = self.coerce(x, s.elem, st).z
            return z3.Exists([i], z3.And(0 <= i, i < s.n, s.arr[i] == xz))
        if ck == 'tuple':
            return z3.Or(*[self.equal(tuple_get(c, i), x, st) for i in range(len(c.ty.args))])
        if ck == 'str' and x.ty.kind == 'str':
            return z3.Contains(c.z, x.z)
        if ck == 'text':
            return self.text_contains(c, x, st)
        _unsup('`in` on %s' % ck, node)

    # ------------------------------------------------------------------ subscripts and attributes
    def ev_Subscript(self, e, st):
        if isinstance(e.slice, ast.Slice):
            parts = [e.value] + [p for p in (e.slice.lower, e.slice.upper) if p is not None]
            if e.slice.step is not None:
                _unsup('slice step', e)
            for vs, s in self.ev_many(parts, st):
                v = vs[0]
                k = 1
                lo = hi = None
                if e.slice.lower is not None:
                    lo = vs[k]; k += 1
                if e.slice.upper is not None:
                    hi = vs[k]
                yield self.slice(v, lo, hi, s, e), s
            return
        for (v, i), s in self.ev_many([e.value, e.slice], st):
            if not isinstance(v, SeqV) and v.ty.kind == 'obj':
                m = self.reg.find_method(v.ty.args[0], '__getitem__')
                if m is None:
                    _unsup('subscript on %r without __getitem__ contract' % (v.ty,), e)
                yield from self.apply_contract(m, [v, i], {}, s, e)
            else:
                yield self.index(v, i, s, e), s

    def clamp(self, i, n):
        j = z3.If(i < 0, n + i, i)
        return z3.simplify(z3.If(j < 0, 0, z3.If(j > n, n, j)))

    def slice(self, v, lo, hi, st, node):
        if not isinstance(v, SeqV) and v.ty.kind == 'opt':
            self.check(st, z3.Not(opt_is_none(v)), 'TypeError', 'none', node)
            v = opt_val(v)
        if not isinstance(v, SeqV) and v.ty.kind == 'text':
            return self.text_slice(v, lo, hi, st, node)
        if not isinstance(v, SeqV) and v.ty.kind == 'str':
            n = z3.Length(v.z)
            a = self.clamp(lo.z, n) if lo is not None else z3.IntVal(0)
            b = self.clamp(hi.z, n) if hi is not None else n
            return SV(STR, z3.SubString(v.z, a, z3.If(b > a, b - a, 0)))
        s = self.seq_of(v, st)
        a = self.clamp(self.unopt_int(lo, st), s.n) if lo is not None else z3.IntVal(0)
        b = self.clamp(self.unopt_int(hi, st), s.n) if hi is not None else s.n
        b = z3.simplify(z3.If(b < a, a, b))
        res = self.seq_slice(s, a, b, st)
        if isinstance(v, SeqV) or self.specmode:
            return res
        return self.new_list(st, res.elem, res.arr, res.n, 'slice')

    def unopt_int(self, v, st):
        return self.coerce(v, INT, st).z

    def index(self, v, i, st, node):
        if isinstance(v, SeqV):
            idx = self.norm_index(i.z, v.n)
            self.check(st, z3.And(0 <= idx, idx < v.n), 'IndexError', 'index', node)
            return SV(v.elem, z3.Select(v.arr, idx))
        k = v.ty.kind
        if k == 'opt':
            self.check(st, z3.Not(opt_is_none(v)), 'TypeError', 'none', node)
            return self.index(opt_val(v), i, st, node)
        if k == 'list':
            n = st.llen(v.z)
            idx = self.norm_index(self.coerce(i, INT, st).z, n)
            self.check(st, z3.And(0 <= idx, idx < n), 'IndexError', 'index', node)
            res = SV(v.ty.args[0], z3.Select(st.larr(v.z, sort_of(v.ty.args[0])), idx))
            self.assume_typed(res, st, depth=0)
            return res
        if k == 'tuple':
            iz = z3.simplify(i.z)
            if not z3.is_int_value(iz):
                _unsup('tuple index must be constant', node)
            j = iz.as_long()
            if j < 0: j += len(v.ty.args)
            if not (0 <= j < len(v.ty.args)):
                self.check(st, z3.BoolVal(False), 'IndexError', 'index', node)
                j = 0
            return tuple_get(v, j)
        if k == 'dict':
            kt, vt = v.ty.args
            kz = self.coerce(i, kt, st).z
            self.check(st, z3.Select(st.ddom(v.z, sort_of(kt)), kz), 'KeyError', 'key', node)
            res = SV(vt, z3.Select(st.dval(v.z, sort_of(kt), sort_of(vt)), kz))
            self.assume_typed(res, st, depth=0)
            return res
        if k == 'fmap':
            res = SV(v.ty.args[1], z3.Select(v.z, self.coerce(i, v.ty.args[0], st).z))
            self.assume_typed(res, st, depth=0)
            return res
        if k == 'text':
            return self.text_index(v, i, st, node)
        if k == 'str':
            n = z3.Length(v.z)
            idx = self.norm_index(i.z, n)
            self.check(st, z3.And(0 <= idx, idx < n), 'IndexError', 'index', node)
            return SV(STR, z3.SubString(v.z, idx, 1))
        _unsup('subscript on %r' % (v.ty,), node)

    def ev_Attribute(self, e, st):
        # ClassName.CONST / module.attr through contract names
        if isinstance(e.value, ast.Name) and e.value.id not in st.env:
            r = self.resolve_name(ast.unparse(e))
            if r is not None and r[0] == 'const':
                yield self.const(r[1], e), st
                return
        for v, s in self.ev(e.value, st):
            yield from self.getattr(v, e.attr, s, e)

    def getattr(self, v, attr, st, node):
        if isinstance(v, SeqV):
            _unsup('attribute of sequence', node)
        if v.ty.kind == 'opt':
            self.check(st, z3.Not(opt_is_none(v)), 'AttributeError', 'none', node)
            v = opt_val(v)
        if v.ty.kind == 'any' and ('any.' + attr) in self.c.types:
            v = self.from_any(v, TObj(self.c.types['any.' + attr].args[0]))
        if v.ty.kind != 'obj':
            _unsup('attribute %s of %r' % (attr, v.ty), node)
        cname = v.ty.args[0]
        f = self.reg.find_field(cname, attr)
        if f is not None:
            kind, c, ty = f
            if kind == 'field':
                res = SV(ty, st.fld(v.z, c, attr, sort_of(ty)))
                if attr in self.reg.classes[c].dynamic and not self.specmode and not getattr(self, '_dyn_probe', 0):
                    # an attribute that may be absent: a plain read raises AttributeError unless it is there
                    self.check(st, z3.Not(opt_is_none(res)), 'AttributeError', 'absent', node)
            else:
                res = SV(ty, z3.Function('const_%s_%s' % (c, attr), Ref, sort_of(ty))(v.z))
                if sort_of(ty) == Ref and getattr(self, 'entry', None) is not None:
                    # a const field is set at construction and never reassigned: what an object that existed at entry refers to
                    # through it existed at entry too (so the frame rule 'entry objects outside modifies are unchanged' applies to it)
                    ea = self.entry.H(key_alloc())
                    fact = z3.Implies(z3.And(z3.Select(ea, v.z), res.z != NULL), z3.Select(ea, res.z))
                    st.assume(fact)
                    if hasattr(self, '_typing_ids'):
                        self._typing_ids.add(fact.get_id())
            self.assume_typed(res, st, depth=0)
            yield res, st
            return
        if f is None:
            # attribute declared on a subclass only: implicit downcast (obligation in code, assumption-free in specs)
            owners = [c for c in self.reg.subclasses(cname) if attr in self.reg.classes[c].fields or attr in self.reg.classes[c].consts]
            if len(owners) >= 1:
                sub = owners[0]
                self.check(st, self.isinstance1(v, sub, st, node), 'AttributeError', 'downcast', node)
                yield from self.getattr(SV(TObj(sub), v.z), attr, st, node)
                return
        m = self.reg.find_method(cname, attr)
        if m is not None and m.kind == 'property':
            yield from self.apply_contract(m, [v], {}, st, node)
            return
        _unsup('unknown attribute %s.%s' % (cname, attr), node)

    # ------------------------------------------------------------------ quantifier-like comprehensions
    def ev_GeneratorExp(self, e, st):
        _unsup('bare generator expression', e)

    def bind_comprehension(self, gen, st):
        """-> (bound z3 vars, range condition, env updates) for `for <target> in <iter>` with a pure iterable"""
        if gen.is_async:
            _unsup('async comprehension', gen)
        it = gen.iter
        if isinstance(it, ast.Name) and it.id in ('INT', 'STR', 'BOOL', 'ANYV') and it.id not in st.env:
            # quantification over a whole sort (spec only)
            ty = {'INT': INT, 'STR': STR, 'BOOL': BOOL, 'ANYV': ANY}[it.id]
            v = fresh(gen.target.id, sort_of(ty))
            return [v], z3.BoolVal(True), {gen.target.id: SV(ty, v)}, None
        cls_by_upper = {c.upper() + 'S': c for c in self.reg.classes}
        if isinstance(it, ast.Name) and it.id in cls_by_upper and it.id not in st.env:
            # NODES: every (possibly null) reference viewed at class Node (spec only)
            ty = TOpt(TObj(cls_by_upper[it.id]))
            v = fresh(gen.target.id, sort_of(ty))
            return [v], z3.BoolVal(True), {gen.target.id: SV(ty, v)}, None
        if isinstance(it, ast.Call) and isinstance(it.func, ast.Name) and it.func.id == 'range':
            args = [self.ev1(a, st) for a in it.args]
            lo, hi = (z3.IntVal(0), args[0].z) if len(args) == 1 else (args[0].z, args[1].z)
            v = fresh(gen.target.id, I)
            return [v], z3.And(lo <= v, v < hi), {gen.target.id: SV(INT, v)}, None
        if isinstance(it, ast.Call) and isinstance(it.func, ast.Attribute) and it.func.attr in ('items', 'keys', 'values') and not it.args:
            d = self.ev1(it.func.value, st)
            if d.ty.kind == 'dict':
                kt, vt = d.ty.args
                k = fresh('k', sort_of(kt))
                dom = z3.Select(st.ddom(d.z, sort_of(kt)), k)
                val = SV(vt, z3.Select(st.dval(d.z, sort_of(kt), sort_of(vt)), k))
                if it.func.attr == 'items':
                    names = [x.id for x in gen.target.elts]
                    return [k], dom, {names[0]: SV(kt, k), names[1]: val}, None
                if it.func.attr == 'keys':
                    return [k], dom, {gen.target.id: SV(kt, k)}, None
                return [k], dom, {gen.target.id: val}, None
        c = self.ev1(it, st)
        ck = 'seq' if isinstance(c, SeqV) else c.ty.kind
        if ck in ('list', 'seq') or (ck == 'tuple' and len(set(c.ty.args)) == 1):
            s = self.seq_of(c, st)
            i = fresh('ix', I)
            x = SV(s.elem, z3.Select(s.arr, i))
            env = self.destructure_env(gen.target, x)
            return [i], z3.And(0 <= i, i < s.n), env, (s, i)
        if ck == 'set':
            x = fresh('x', sort_of(c.ty.args[0]))
            return [x], z3.Select(st.smem(c.z, x.sort()), x), self.destructure_env(gen.target, SV(c.ty.args[0], x)), None
        if ck == 'dict':
            x = fresh('k', sort_of(c.ty.args[0]))
            return [x], z3.Select(st.ddom(c.z, x.sort()), x), self.destructure_env(gen.target, SV(c.ty.args[0], x)), None
        _unsup('comprehension over %s' % ck, gen)

    def destructure_env(self, target, v):
        if isinstance(target, ast.Name):
            return {target.id: v}
        if isinstance(target, ast.Tuple) and v.ty.kind == 'tuple':
            env = {}
            for i, t in enumerate(target.elts):
                env.update(self.destructure_env(t, tuple_get(v, i)))
            return env
        _unsup('comprehension target', target)

    def quantified(self, gexp, st, universal):
        """all(...)/any(...) over a generator expression with pure body -> ForAll / Exists"""
        s2 = st.copy()
        n0 = len(s2.pc)
        vars_all, guards, pats = [], [], []
        was = self.specmode
        self.specmode += 1          # body is evaluated as a formula: no obligations inside quantifiers
        try:
            for gen in gexp.generators:
                vars_, rng, env, _ = self.bind_comprehension(gen, s2)
                s2.env.update(env)
                vars_all += vars_
                guards.append(rng)
                for c in gen.ifs:
                    if isinstance(c, ast.Call) and isinstance(c.func, ast.Name) and c.func.id == 'trig':
                        # trig(t1, t2, ...): one (multi-)pattern for the quantifier; no logical content
                        ts = []
                        for a in c.args:
                            tv = self.ev1(a, s2)
                            ts.append(tv.z if not isinstance(tv, z3.ExprRef) else tv)
                        pats.append(z3.MultiPattern(*ts) if len(ts) > 1 else ts[0])
                    else:
                        guards.append(self.truthy(self.ev1(c, s2), s2))
            body = self.truthy(self.ev1(gexp.elt, s2), s2)
        finally:
            self.specmode = was
        sides = s2.pc[n0:]
        # side facts that do not mention the bound variables (typing of the objects the body reads) are hoisted out of the quantifier
        bound = {v.get_id() for v in vars_all}
        inner, typing = [], []
        tids = getattr(self, '_typing_ids', set())
        for f in sides:
            if _mentions(f, bound):
                (typing if f.get_id() in tids else inner).append(f)
            else:
                st.assume(f)
        if typing:
            # heap typing invariant (elements of a typed container are null or live objects of the element class): holds for every
            # index, so it is an assumption of its own rather than a guard that would have to be re-proved to use the fact
            tf = z3.ForAll(vars_all, z3.simplify(z3.Implies(z3.And(*guards), z3.And(*typing))))
            if hasattr(self, '_typing_ids'):
                self._typing_ids.add(tf.get_id())       # still a typing fact when it sits under an outer binder
            st.assume(tf)
        guard = z3.And(*guards, *inner)
        # normalise select-over-store inside the body so that triggers are the terms the ground facts contain
        if universal:
            return z3.ForAll(vars_all, z3.simplify(z3.Implies(guard, body)), patterns=pats)
        return z3.Exists(vars_all, z3.simplify(z3.And(guard, body)), patterns=pats)
