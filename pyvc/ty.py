"""Types of the verified Python subset and their SMT sorts.

Every symbolic value (SV) carries exactly one z3 term whose sort is sort_of(type), except
mathematical sequences (SeqV: spec-level / ghost values) which are an (array, length) pair.
"""
import ast
import itertools
import z3

Ref = z3.DeclareSort('Ref')
NULL = z3.Const('null', Ref)
AnyS = z3.DeclareSort('Any')
TextS = z3.DeclareSort('Text')
NoneS = z3.DeclareSort('NoneT')
NONEV = z3.Const('None!', NoneS)


class Ty:
    __slots__ = ('kind', 'args')

    def __init__(self, kind, *args):
        self.kind, self.args = kind, tuple(args)

    def __eq__(self, o):
        return isinstance(o, Ty) and (self.kind, self.args) == (o.kind, o.args)

    def __hash__(self):
        return hash((self.kind, self.args))

    def __repr__(self):
        if not self.args:
            return self.kind
        return '%s[%s]' % (self.kind, ','.join(map(repr, self.args)))

    @property
    def is_ref(self):
        return self.kind in ('list', 'dict', 'set', 'obj') or (self.kind == 'opt' and self.args[0].is_ref)


INT, BOOL, STR, NONE, ANY, TEXT = Ty('int'), Ty('bool'), Ty('str'), Ty('none'), Ty('any'), Ty('text')


def TList(e): return Ty('list', e)
def TTuple(*es): return Ty('tuple', *es)
def TDict(k, v): return Ty('dict', k, v)
def TSet(e): return Ty('set', e)
def TObj(c): return Ty('obj', c)
def TOpt(b): return b if b.kind == 'opt' else Ty('opt', b)
def TSeq(e): return Ty('seq', e)
def TFSet(e): return Ty('fset', e)      # immutable collection value supporting only `in` (tuple/list/frozenset constants)


SIZED = Ty('sized')     # immutable collection of which only the length is observed (e.g. Rule.expansion)
_ATOMS = {'sized': SIZED, 'int': INT, 'bool': BOOL, 'str': STR, 'None': NONE, 'none': NONE, 'any': ANY, 'text': TEXT}


def parse_type(s):
    """'int', 'list[int]', 'tuple[int,str]', 'dict[str,int]', 'set[str]', 'opt[T]', 'seq[T]', ClassName."""
    if isinstance(s, Ty):
        return s
    node = ast.parse(s, mode='eval').body

    def go(n):
        if isinstance(n, ast.Constant) and n.value is None:
            return NONE
        if isinstance(n, ast.Name):
            return _ATOMS.get(n.id) or TObj(n.id)
        if isinstance(n, ast.Subscript):
            head = n.value.id
            sl = n.slice
            args = [go(x) for x in sl.elts] if isinstance(sl, ast.Tuple) else [go(sl)]
            return {'list': lambda: TList(*args), 'tuple': lambda: TTuple(*args), 'dict': lambda: TDict(*args),
                    'set': lambda: TSet(*args), 'fset': lambda: TFSet(*args), 'opt': lambda: TOpt(*args), 'seq': lambda: TSeq(*args)}[head]()
        raise ValueError('bad type %r' % s)
    return go(node)


_sort_cache = {}
_tuple_dt = {}
_opt_dt = {}


def sort_name(s):
    return str(s).replace(' ', '').replace('(', '_').replace(')', '_').replace(',', '_')


def sort_of(t):
    if t in _sort_cache:
        return _sort_cache[t]
    k = t.kind
    if k in ('int', 'sized'): s = z3.IntSort()
    elif k == 'bool': s = z3.BoolSort()
    elif k == 'str': s = z3.StringSort()
    elif k == 'none': s = NoneS
    elif k == 'any': s = AnyS
    elif k == 'text': s = TextS
    elif k in ('list', 'dict', 'set', 'obj'): s = Ref
    elif k == 'fset': s = z3.ArraySort(sort_of(t.args[0]), z3.BoolSort())
    elif k == 'fmap': s = z3.ArraySort(sort_of(t.args[0]), sort_of(t.args[1]))
    elif k == 'tuple':
        sig = tuple(sort_name(sort_of(a)) for a in t.args)
        if sig not in _tuple_dt:
            nm = 'Tup%d_%s' % (len(sig), '_'.join(sig))
            dt = z3.Datatype(nm)
            dt.declare('mk_' + nm, *[('f%d_%s' % (i, nm), sort_of(a)) for i, a in enumerate(t.args)])      # unique names: SMT-LIB round trip
            _tuple_dt[sig] = dt.create()
        s = _tuple_dt[sig]
    elif k == 'opt':
        b = sort_of(t.args[0])
        if b == Ref:
            s = Ref
        else:
            nm = sort_name(b)
            if nm not in _opt_dt:
                dt = z3.Datatype('Opt_%s' % nm)
                dt.declare('none_' + nm)
                dt.declare('some_' + nm, ('v_' + nm, b))
                _opt_dt[nm] = dt.create()
            s = _opt_dt[nm]
    else:
        raise ValueError('no sort for %r' % (t,))
    _sort_cache[t] = s
    return s


_fresh = itertools.count()


_skolem = []      # stack of bound-variable lists: fresh symbols created while evaluating under a binder depend on the bound variables


def fresh(name, sort):
    k = next(_fresh)
    if _skolem and _skolem[-1]:
        vs = _skolem[-1]
        return z3.Function('%s!%d' % (name, k), *[v.sort() for v in vs], sort)(*vs)
    return z3.Const('%s!%d' % (name, k), sort)


class skolem_over:
    """with skolem_over([v]): every fresh() symbol is a function of v (so facts about it can be closed under forall v)"""
    def __init__(self, vs):
        self.vs = list(vs)

    def __enter__(self):
        _skolem.append(self.vs)

    def __exit__(self, *a):
        _skolem.pop()


class SV:
    """Symbolic value: a type and one z3 term."""
    __slots__ = ('ty', 'z')

    def __init__(self, ty, z):
        self.ty, self.z = ty, z

    def __repr__(self):
        return 'SV(%r, %s)' % (self.ty, self.z)


class SeqV:
    """Mathematical sequence (ghost / spec value): elements arr[0..n)."""
    __slots__ = ('elem', 'arr', 'n')

    def __init__(self, elem, arr, n):
        self.elem, self.arr, self.n = elem, arr, n

    @property
    def ty(self):
        return TSeq(self.elem)

    def __repr__(self):
        return 'SeqV(%r, %s, %s)' % (self.elem, self.arr, self.n)


def fresh_sv(name, ty):
    if ty.kind == 'seq':
        return SeqV(ty.args[0], fresh(name + '_arr', z3.ArraySort(z3.IntSort(), sort_of(ty.args[0]))), fresh(name + '_n', z3.IntSort()))
    return SV(ty, fresh(name, sort_of(ty)))


def mk_tuple(ty, zs):
    return SV(ty, sort_of(ty).constructor(0)(*zs))


def tuple_get(sv, i):
    return SV(sv.ty.args[i], sort_of(sv.ty).accessor(0, i)(sv.z))


def opt_none(ty):
    s = sort_of(ty)
    return SV(ty, NULL if s == Ref else s.constructor(0)())


def opt_some(ty, z):
    s = sort_of(ty)
    return SV(ty, z if s == Ref else s.constructor(1)(z))


def opt_is_none(sv):
    s = sort_of(sv.ty)
    return sv.z == NULL if s == Ref else s.recognizer(0)(sv.z)


def opt_val(sv):
    s = sort_of(sv.ty)
    return SV(sv.ty.args[0], sv.z if s == Ref else s.accessor(1, 0)(sv.z))
