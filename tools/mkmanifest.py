"""regenerate MANIFEST.json from tools/claims.json (one entry per claimed property) - keeps it valid at all times"""
import json, os
HERE = os.path.dirname(os.path.dirname(os.path.abspath(__file__)))
props = [json.loads(l) for l in open(os.path.join(HERE, 'properties.jsonl'))]
claims = json.load(open(os.path.join(HERE, 'tools', 'claims.json')))
fixes = claims.pop('_fix_commits', [])
na = claims.pop('_not_applicable', {})
checks = []
for pid in sorted(claims):
    c = claims[pid]
    checks.append({"property_id": pid, "quick_cmd": "./check %s --tier quick" % pid, "thorough_cmd": "./check %s --tier thorough" % pid,
                   "evidence_file": "/verif/evidence/%s.json" % pid, "replay_cmd_template": "./check replay {path}", "engine": "pyvc",
                   "level_claimed": {"category": "proof", "text": c['text'], "design_ref": c.get('design_ref', 'DESIGN.md section 4 / ' + pid)},
                   "level_note": c['note'], "technique": c.get('technique', "contract-based deductive verification: VCs generated from the real function ASTs against sidecar contracts, discharged by z3/cvc5; bounded stand-ins labelled")})
m = {"version": 1,
     "setup_cmd": "python3-vt -c \"import sys; sys.path.insert(0,'/verif'); import z3, pyvc.engine, pyvc.run; print('pyvc ok', z3.get_version_string())\"",
     "hooks": {"guard": "LARK_VERIF", "enable": "no hooks: contracts are sidecar files under /verif/contracts; functions are read from /repo's working tree on every run",
               "baseline_off_cmd": "cd /repo && /venv/bin/python -m pytest -ra -q -p no:cacheprovider --timeout=900 --continue-on-collection-errors",
               "source_commits": fixes, "add_only": True},
     "engines": [{"name": "pyvc", "path": "/verif/pyvc", "serves_properties": sorted(claims),
                  "kind_free_text": "self-built VC generator: symbolic execution of the real function ASTs against sidecar contracts (pre/post, loop invariants, frames, ghost lemmas); obligations discharged by z3 5.1 / cvc5 1.0 / z3 4.8"}],
     "checks": checks,
     "not_applicable": [{"property_id": p['id'], "reason": na.get(p['id'], "kernel not built yet (see DESIGN.md section 5)")} for p in props if p['id'] not in claims],
     "notes": "See DESIGN.md. Exit codes: 0 held, 1 violation, 2 undecided (never a VIOLATION line), 3 checker problem."}
json.dump(m, open(os.path.join(HERE, 'MANIFEST.json'), 'w'), indent=1)
print('claimed:', sorted(claims))
