#!/bin/sh
# tools/confirm_seed.sh <seed dir with patch.diff, demo.py> : confirm on a scratch worktree of /repo HEAD that (1) the patch applies,
# (2) the unedited test-suite passes with it, (3) demo.py fails with it and passes without it. Prints one JSON line.
S="$1"
W=$(mktemp -d /tmp/seedwtXXXXXX)
git -C /repo worktree add --detach "$W" HEAD >/dev/null 2>&1
cd "$W"
timeout 120 /venv/bin/python "$S/demo.py" >/dev/null 2>&1; BASE=$?
if ! git apply "$S/patch.diff" 2>/dev/null; then
  echo "{\"seed\": \"$S\", \"applies\": false}"; cd /; git -C /repo worktree remove --force "$W"; exit 0
fi
timeout 120 /venv/bin/python "$S/demo.py" >/dev/null 2>&1; WITH=$?
timeout 900 /venv/bin/python -m pytest -q -p no:cacheprovider --timeout=900 -x >/dev/null 2>&1; SUITE=$?
echo "{\"seed\": \"$S\", \"applies\": true, \"demo_without\": $BASE, \"demo_with\": $WITH, \"suite_rc_with\": $SUITE}"
cd /; git -C /repo worktree remove --force "$W"
