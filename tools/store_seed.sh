#!/bin/sh
# tools/store_seed.sh <P> <round dir suffix e.g. r3> <target suffix e.g. 5> <confirm json>: copy a confirmed seed into seeded/<P>-<n>/ with meta.json
P="$1"; SRC="/tmp/seeds/${P}$2"; DST="/verif/seeded/${P}-$3"; CONF="$4"
mkdir -p "$DST"; cp "$SRC/patch.diff" "$SRC/demo.py" "$DST/"; [ -f "$SRC/notes.md" ] && cp "$SRC/notes.md" "$DST/"
python3 - "$P" "$3" "$DST" "$CONF" <<'PY'
import json, sys, os
p, n, dst, conf = sys.argv[1:]
notes = open(os.path.join(dst, 'notes.md')).read() if os.path.exists(os.path.join(dst, 'notes.md')) else ''
json.dump({'id': '%s-%s' % (p, n), 'property': p,
  'origin': 'independent sub-agent (third round) given only the property text and a scratch worktree; told to avoid the functions the four earlier seeds touched',
  'needs_to_manifest': ' '.join(notes.split())[:700],
  'confirmed': {'on': 'scratch git worktree of /repo HEAD (tools/confirm_seed.sh), removed afterwards', 'result': {k: v for k, v in json.load(open(conf)).items() if k != 'seed'}},
  'rebased_onto_fix_commits': False}, open(os.path.join(dst, 'meta.json'), 'w'), indent=1)
PY
