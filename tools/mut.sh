#!/bin/sh
# tools/mut.sh <patch.diff> <prop> [more check args]: run a check against a scratch copy of /repo with the patch applied
P="$(readlink -f "$1")"; shift
D=$(mktemp -d /tmp/mutXXXXXX)
rsync -a --exclude .git --exclude __pycache__ /repo/ "$D/"
(cd "$D" && patch -p1 -s < "$P") || { echo "PATCH FAILED"; rm -rf "$D"; exit 9; }
VERIF_NO_EVIDENCE=1 VERIF_REPO="$D" /verif/check "$@" 2>&1 | grep -v "WARNING conda"
RC=$?
rm -rf "$D"
