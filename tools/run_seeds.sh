#!/bin/sh
# tools/run_seeds.sh [prop...]: run every stored seed against its property's quick check on a scratch copy; one line per seed
cd /verif
for d in seeded/*/; do
  id=$(basename $d); prop=${id%-*}
  if [ -n "$1" ] && ! echo "$@" | grep -qw "$prop"; then continue; fi
  if ! grep -q "\"property_id\": \"$prop\"" MANIFEST.json; then echo "$id not-claimed"; continue; fi
  if grep -q '"status": "obsolete' $d/meta.json 2>/dev/null; then echo "$id obsolete (see meta.json)"; continue; fi
  out=$(VERIF_FAST_UNKNOWN=1 tools/mut.sh $d/patch.diff $prop 2>&1)
  v=$(echo "$out" | grep -c "^VIOLATION")
  ded=$(echo "$out" | grep "^VIOLATION" | grep -vc "bounded\.")
  echo "$id violations=$v deductive_or_replay=$ded $(echo "$out" | grep '^VIOLATION' | head -2 | sed -E 's/.*replay=.*replays\/[A-Z0-9]+\///' | tr '\n' ' ' | cut -c1-150)"
done
