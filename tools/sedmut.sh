#!/bin/sh
# tools/sedmut.sh <file relative to repo> <sed expr> <prop> [args]: apply a sed mutation on a scratch copy and run a check
F="$1"; E="$2"; shift; shift
D=$(mktemp -d /tmp/mutXXXXXX)
rsync -a --exclude .git --exclude __pycache__ /repo/ "$D/"
sed -i "$E" "$D/$F"
if cmp -s "$D/$F" "/repo/$F"; then echo "SED DID NOT CHANGE ANYTHING"; rm -rf "$D"; exit 9; fi
VERIF_NO_EVIDENCE=1 VERIF_REPO="$D" /verif/check "$@" 2>&1 | grep -v "WARNING conda"
rm -rf "$D"
