"""tools/audit_units.py: every contract that `serves` a claimed property P must live in a module listed in P's UNITS - otherwise its
obligations are never generated under P (the contract would look as if it carried P and carry nothing).  Run with python3-vt."""
import importlib, json, os, sys
sys.path.insert(0, os.path.dirname(os.path.dirname(os.path.abspath(__file__))))
from pyvc.run import load_registry
claimed = sorted(json.load(open(os.path.join(os.path.dirname(os.path.abspath(__file__)), 'claims.json'))))
claimed = [p for p in claimed if not p.startswith('_')]
units = {}
for p in claimed:
    m = importlib.import_module('contracts.' + p)
    units[p] = list(getattr(m, 'UNITS', [p]))
bad = 0
for unit in claimed:
    reg, _ = load_registry(unit)
    for c in reg.contracts.values():
        if getattr(c, 'assumed', False):
            continue
        for p in c.serves:
            if p in units and unit not in units[p] and not any(c.target in load_registry(u)[0].contracts for u in units[p]):
                print('NOT GENERATED under %s: %s (registered by unit %s, UNITS[%s] = %s)' % (p, c.target, unit, p, units[p]))
                bad += 1
print('audit: %d contracts serve a property that never loads them' % bad)
sys.exit(1 if bad else 0)
